"""Proof obligations of the inductive lemmas (spec/lemmas/*.smt2): run with the portfolio, expect unsat."""
import glob
import os
import re

from pyvc import smt

ROOT = os.path.dirname(os.path.dirname(os.path.abspath(__file__)))
STUB_TABLE = ("(define-fun subclass ((a Int)(b Int)) Bool false)\n(define-fun meta_of ((c Int)) Int 11)\n"
              "(define-fun obj_truthy ((x V)) Bool true)\n(define-fun not_subscriptable ((c Int)) Bool false)\n")

LEMMA_FILES = {
    "JSON-ELEM": ["json_elem_seq_step", "json_elem_vals_step"],
    "JSON-INTRO": ["json_intro_seq_step", "json_intro_vals_step"],
    "RB": ["rb_scalar", "rb_seq_step", "rb_list", "rb_absent", "rb_dget_step", "rb_map_step", "rb_dict"],
    "DICT-ITEM": ["dict_distinct_step", "dict_item_step", "dict_wf_suffix_step", "dict_haskey_step"],
    "MEM-EX": ["mem_ex_step", "mem_ex_conv_step"],
    "IS-MEM-NTH": ["ismem_nth"],
    "IS-MEM": ["ismem_empty", "ismem_unit", "ismem_concat", "ismem_nth", "ismem_prefix_step", "ismem_prefix_ends"],
    "CONCAT-ALL": ["concat_nth", "concat_all"],
    "RB-MEM": ["rb_mem_step"],
    "RB-DUP": ["rb_dup_step"],
}


def lemma_text(name):
    body = open(os.path.join(ROOT, "spec", "lemmas", name + ".smt2")).read()
    uses = re.search(r"; USES:(.*)", body).group(1).split()
    parts = [smt.PRELUDE.replace(";;CLASS_TABLE;;", STUB_TABLE)]
    for u in uses:
        parts.append(smt.spec_module(u))
    parts.append(body)
    return "\n".join(parts)


def run(names, timeout=30.0):
    out = []
    for lem in names:
        for f in LEMMA_FILES.get(lem, []):
            r = smt.solve_text(lemma_text(f), timeout=timeout, name="lemma_" + f)
            out.append({"lemma": lem, "step": f, "status": r.status, "solver": r.solver, "s": round(r.time, 2), "attempts": r.attempts})
    return out


if __name__ == "__main__":
    import sys
    for r in run(sys.argv[1:] or list(LEMMA_FILES)):
        print(r["lemma"], r["step"], r["status"], r["solver"], r["s"])
