"""./check <id> --replay <file>: re-run the recorded failing case natively."""
import json
import os


def run(pid, path):
    payload = json.load(open(path))
    print(json.dumps({k: payload[k] for k in payload if k in ("key", "obligation", "what", "contract")}, indent=1))
    wit = payload.get("witness")
    if wit:
        print("witness:", json.dumps(wit, indent=1)[:2000])
    code = payload.get("repro")
    if code:
        print("--- re-running recorded reproduction ---")
        ns = {}
        try:
            exec(code, ns)
            print("reproduction ran without raising: the violation no longer reproduces")
            return 0
        except AssertionError as e:
            print("REPRODUCED:", e)
            return 1
    return 1 if wit else 0
