"""./check <id> --replay <file>: re-run the recorded failing case natively."""
import json
import os


def run(pid, path):
    payload = json.load(open(path))
    print(json.dumps({k: payload[k] for k in payload if k in ("key", "obligation", "what", "contract")}, indent=1))
    wit = payload.get("witness")
    if wit:
        print("witness:", json.dumps(wit, indent=1)[:2000])
    code = payload.get("repro")
    if code:
        print("--- re-running recorded reproduction ---")
        ns = {}
        try:
            exec(code, ns)
            print("reproduction ran without raising: the violation no longer reproduces")
            return 0
        except AssertionError as e:
            print("REPRODUCED:", e)
            return 1
    cname = payload.get("contract")
    if cname:
        # a contract witness: the monitor is run again over the contract's (deterministic) pool on the tree under test
        print("--- re-running the contract natively over its pool ---")
        from checker.main import load_contracts
        from pyvc.contracts import REG
        from runtime import monitor, pools
        load_contracts()
        cs = [c for c in REG.values() if c.name == cname]
        if not cs:
            print(f"no contract named {cname}")
            return 3
        c = cs[0]
        tried = 0
        for fn, args in pools.pool(c, limit=20000):
            try:
                r = monitor.check_call(c, fn, args)
            except Exception:
                continue
            if r == "skip":
                continue
            tried += 1
            if isinstance(r, dict):
                print("REPRODUCED after", tried, "evaluations:", json.dumps(r, indent=1)[:1500])
                return 1
        print(f"{tried} evaluations, no violation of {cname}: the violation no longer reproduces")
        if payload.get("smt_file"):
            print("(the failed obligation and the solver output are in the replay file: smt_file / solver_output)")
        return 0
    return 1 if wit else 0
