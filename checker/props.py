"""Per-property check specifications: which contracts (by tag), which bounded stand-ins, claimed level."""

PROPS = {}


def prop(pid, level, explanation, bounded=(), assumptions=()):
    PROPS[pid] = {"level": level, "explanation": explanation, "bounded": list(bounded), "assumptions": list(assumptions)}


prop("C08", "other",
     "Pass F frame obligations + functional contracts of the validation call graph (deductive, unbounded) "
     "plus bounded call histories with observable snapshots (stand-in for the functions not yet under contract).")

NOT_YET = {}
FIX_COMMITS = ["240c9e2"]
