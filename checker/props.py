"""Per-property check specifications: which contracts (by tag), which bounded stand-ins, claimed level."""

from bounded import props as B

PROPS = {}


def prop(pid, level, explanation, bounded=(), assumptions=()):
    PROPS[pid] = {"level": level, "explanation": explanation, "bounded": list(bounded), "assumptions": list(assumptions)}


prop("C08", "other",
     "Pass F frame obligations + functional contracts of the validation call graph (deductive, unbounded) "
     "plus bounded call histories with observable snapshots (stand-in for the functions not yet under contract).",
     bounded=[B.c08_histories])

prop("C01", "other",
     "Per-keyword validator contracts (raise iff the Draft-6 clause fails, type guard, no other exception) discharged for all inputs; "
     "the composition parse_element -> Element.__call__ is covered by the bounded pipeline comparison against an independent Draft-6 oracle.",
     bounded=[B.c01_pipeline])

prop("C10", "other",
     "safe@op obligations (no exception other than those the contract allows) of every function under contract, discharged for all inputs; "
     "bounded: extreme-value pool through the whole pipeline.",
     bounded=[B.c10_pipeline])

NOT_YET = {}
FIX_COMMITS = ["240c9e2", "ba1006d", "dab453b", "5a0ad53"]
