"""Per-property check specifications: which contracts (by tag), which bounded stand-ins, claimed level."""

from bounded import props as B
from bounded import props2 as B2
from bounded import props3 as B3

PROPS = {}


def prop(pid, level, explanation, bounded=(), assumptions=()):
    PROPS[pid] = {"level": level, "explanation": explanation, "bounded": list(bounded), "assumptions": list(assumptions)}


prop("C08", "other",
     "Pass F frame obligations + functional contracts of the validation call graph (deductive, unbounded) "
     "plus bounded call histories with observable snapshots (stand-in for the functions not yet under contract).",
     bounded=[B.c08_histories])

prop("C01", "other",
     "Per-keyword validator contracts (raise iff the Draft-6 clause fails, type guard, no other exception) discharged for all inputs; "
     "the composition parse_element -> Element.__call__ is covered by the bounded pipeline comparison against an independent Draft-6 oracle.",
     bounded=[B.c01_pipeline])

prop("C10", "other",
     "safe@op obligations (no exception other than those the contract allows) of every function under contract, discharged for all inputs; "
     "bounded: extreme-value pool through the whole pipeline.",
     bounded=[B.c10_pipeline, B.c10_documents])

prop("C07", "other",
     "Default/description clauses of the parser under contract (deductive) where within PyVC's reach; the end-to-end statement "
     "(parse, JSON and executed Python serialisation carry exactly the schema's default/description) is checked by bounded enumeration.",
     bounded=[B.c07_defaults, B.c07_descriptions])

prop("C09", "other",
     "det@setloop obligations (iteration over set-typed values must not influence outputs) on the generator/parser functions under contract; "
     "the cross-process statement is exercised by running the real CLI under several PYTHONHASHSEED values (bounded).",
     bounded=[B.c09_hashseeds])

prop("C05", "other",
     "Default clauses of Element.__call__/Object.__new__/Properties.__call__/_PropertyDict.required under contract (deductive, where in reach); "
     "bounded: object schemas x all subsets of supplied properties, every pool element called with no value.",
     bounded=[B.c05_defaults])

prop("C16", "other",
     "Register/lookup/type-guard contracts (_FormatString.__call__, register, Format._validate, Validator.__call__[Format]) discharged for all "
     "names, values and register contents; the built-in uuid/date-time checkers delegate to uuid.UUID and dateutil, whose behaviour is only bounded.",
     bounded=[B.c16_formats])

prop("C04", "other",
     "result == build(E, v) clauses of the construct chain under contract where in reach; bounded: every accepted value of the element x value pools is "
     "compared member by member (names, lengths, scalars, number->float) with the model returned.",
     bounded=[B2.c04_covers])

prop("C13", "other",
     "no-memo / frame obligations of the validation call graph (Pass F: every heap write targets a fresh object or a declared idempotent binding field); "
     "bounded: reconfiguration scenarios interleaved with calls against a freshly built twin.",
     bounded=[B2.c13_reconfig])

prop("C14", "other",
     "Sufficient condition proved: the frame obligations of C08 (concurrent calls share only read-only state and same-value binding writes); the quantifier over "
     "interleavings is discharged by a stated meta-argument (CPython attribute loads/stores are atomic), not enumerated. Bounded: thread smoke test.",
     bounded=[B2.c14_threads],
     assumptions=["memory model: CPython attribute loads and stores are atomic and sequentially consistent"])

prop("C15", "other",
     "ObjectMeta.__new__ merge/clone/frame contract where in reach; bounded: parent/child/grandchild families against flat twins in all orders of define/use/reconfigure.",
     bounded=[B2.c15_inheritance])

prop("C20", "other",
     "parse_element's refusal clause under contract where in reach; bounded: every schema position x carrier x unsupported keyword through parse(), "
     "literal positions, cyclic documents (in-memory and through real files via the CLI entry point).",
     bounded=[B3.c20_unsupported, B3.c20_cli_cycles])

prop("C11", "other",
     "orderer/get_children/_get_path contracts where in reach; bounded: all listed dependency graphs x keyword positions, and call histories.",
     bounded=[B3.c11_order])

prop("C12", "other",
     "_parse_attribute_name/_title_format/dedupe contracts where in reach; bounded: property names over a class alphabet (every length <= 2 string), sibling pairs, titles; "
     "each generated module is executed.",
     bounded=[B3.c12_names, B3.c12_siblings, B3.c12_titles, B3.c12_class_names, B3.c12_codepoints])

prop("C17", "other",
     "__eq__ contracts (Element, _Property) where in reach; bounded: all pairs of element variants one keyword/literal/property attribute/class apart: "
     "reflexive, symmetric, copies equal, == implies same verdicts and same JSON serialisation.",
     bounded=[B3.c17_equality])

prop("C18", "other",
     "custom_repr_args contract at the Args level where in reach; the step `eval(repr(x))` is text and is covered by bounded enumeration only.",
     bounded=[B3.c18_repr])

prop("C19", "other",
     "annotation functions under contract at the type-term level where in reach; bounded: the annotation *text* is parsed into a type term and the runtime attribute "
     "values of built models are checked against it.",
     bounded=[B3.c19_annotations])

prop("C02", "other",
     "Structured sub-obligations (declaration order via C11's contracts, dedupe, imports, class header) where in reach; the deciding tail -- CPython executes the generated text -- "
     "is bounded: documents through the real CLI entry point, module executed, classes and verdicts compared.",
     bounded=[B3.c02_generated, B3.c12_titles])

prop("C03", "other",
     "_serialize_element/serialize_json contracts where in reach; bounded: DSL trees (shared classes, several roots, caller definitions, class extended after a first serialisation) "
     "x values against an independent Draft-6 oracle evaluating the serialised document with its $refs.",
     bounded=[B3.c03_json])

prop("C06", "other",
     "Round-trip lemma over parser/serialiser contracts is not within reach of the discharged obligations yet; bounded: JSON round trip (twice) and executed Python source on the schema enumeration.",
     bounded=[B3.c06_roundtrip])

NOT_YET = {}
FIX_COMMITS = ["240c9e2", "ba1006d", "dab453b", "5a0ad53", "5fe75a7", "1c7b42d", "0339f31", "a857da5", "9e872e5", "85d1ad8", "757eca2", "d1e41a0", "8960798", "e3fd882", "13caeae", "2f55341", "9fbbe28", "f7d2b94"]
