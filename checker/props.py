"""Per-property check specifications: which contracts (by tag), which bounded stand-ins, claimed level."""

from bounded import props as B
from bounded import props2 as B2
from bounded import props3 as B3

PROPS = {}


def prop(pid, level, explanation, bounded=(), assumptions=()):
    PROPS[pid] = {"level": level, "explanation": explanation, "bounded": list(bounded), "assumptions": list(assumptions)}


prop("C08", "other",
     "Pass F frame obligations + functional contracts of the validation call graph (deductive, unbounded) "
     "plus bounded call histories with observable snapshots (stand-in for the functions not yet under contract).",
     bounded=[B.c08_histories])

prop("C01", "other",
     'Deductive (all inputs): per-keyword validator contracts (raise iff the Draft-6 clause fails, type guard, no other exception); '
     'Validator.from_element[K]; get_validators / Element.validators[K] / ObjectMeta.validators characterised completely (which validators, with which '
     'parameters, nothing else); Element.__call__[K] and Object.__new__ raise iff a validator rejects or construct fails; lemma family VALS-D6 over these '
     "contracts gives, per element class, sem(e, x) <=> every keyword clause with e's own keyword values, the type clause, the additionalProperties "
     "validator, and construct succeeds. Not deductive: construct's recursion into items/properties (Items.__call__, Properties.__call__ have contracts that "
     "are not yet composed), MultipleOf's binary64 arithmetic, the parser. Those are covered by the bounded pipeline comparison parse_element -> "
     'Element.__call__ against an independent Draft-6 oracle.',
     bounded=[B.c01_pipeline])

prop("C10", "other",
     "safe@op obligations (no exception other than those the contract allows) of every function under contract, discharged for all inputs; "
     "bounded: extreme-value pool through the whole pipeline.",
     bounded=[B.c10_pipeline, B.c10_documents])

prop("C07", "other",
     "Deductive: _serialize_element[K] carries `default` / `description` (and every other non-default keyword attribute) into the schema dict unchanged and emits no `default` "
     "the element does not have; Element.__init__ stores every keyword argument as given; _compose_elements[AllOf|AnyOf|OneOf] returns a *new* trivial Element for no members "
     "(so a default attached to it cannot leak into another parse), the member itself for one, a new composition of exactly the members otherwise. Not deductive: "
     "_parse_composition / _parse_multi_typed (where the schema-level default is attached), the Python serialiser's text. Those and the end-to-end statement "
     "(parse, JSON and executed Python serialisation carry exactly the schema's default/description) are checked by bounded enumeration.",
     bounded=[B.c07_defaults, B.c07_descriptions])

prop("C09", "other",
     "det@setloop obligations (iteration over set-typed values must not influence outputs) on the generator/parser functions under contract; "
     "the cross-process statement is exercised by running the real CLI under several PYTHONHASHSEED values (bounded).",
     bounded=[B.c09_hashseeds])

prop("C05", "other",
     'Deductive: Element.__call__[K] (no value: NotPassed without default, else the default converted as if supplied when accepted and the raw default when '
     'not, never an error; a supplied value is never replaced), Object.__new__ (same clause for model classes), '
     'Properties.__init__/__getitem__/__contains__, _PropertyDict.required (required waived by a default), Required.from_element. Properties.__call__ '
     '(placeholder injection through dict merge + comprehension: raises iff a member is rejected by its schema; the caller\'s dict is not written). Not deductive: Object.__init__ (setattr with computed names). Bounded: object '
     'schemas x subsets of supplied properties x valid/invalid/nested defaults, every element called with no value.',
     bounded=[B.c05_defaults])

prop("C16", "other",
     "Register/lookup/type-guard contracts (_FormatString.__call__, register, Format._validate, Validator.__call__[Format]) discharged for all "
     "names, values and register contents; the built-in uuid/date-time checkers delegate to uuid.UUID and dateutil, whose behaviour is only bounded.",
     bounded=[B.c16_formats])

prop("C04", "other",
     "result == build(E, v) clauses of the construct chain under contract where in reach; bounded: every accepted value of the element x value pools is "
     "compared member by member (names, lengths, scalars, number->float) with the model returned.",
     bounded=[B2.c04_covers])

prop("C13", "other",
     "no-memo / frame obligations of the validation call graph (Pass F: every heap write targets a fresh object or a declared idempotent binding field); "
     "bounded: reconfiguration scenarios interleaved with calls against a freshly built twin.",
     bounded=[B2.c13_reconfig])

prop("C14", "other",
     "Sufficient condition proved: every contract of C08 is run under C14 too -- its frame obligations say that concurrent calls share only read-only state and same-value binding writes "
     "(a write to a caller-owned object, such as renaming the enclosing property in place, fails `<function>/frame` on every run); the quantifier over "
     "interleavings is discharged by a stated meta-argument (CPython attribute loads/stores are atomic), not enumerated. Bounded: thread smoke test.",
     bounded=[B2.c14_threads],
     assumptions=["memory model: CPython attribute loads and stores are atomic and sequentially consistent"])

prop("C15", "other",
     "ObjectMeta.__new__ merge/clone/frame contract where in reach; bounded: parent/child/grandchild families against flat twins in all orders of define/use/reconfigure.",
     bounded=[B2.c15_inheritance])

prop("C20", "other",
     "Deductive: parse_element refuses a schema carrying a documented-unsupported keyword at its own level before doing anything else (raises iff), and each position parser "
     "(contains, propertyNames, additionalProperties, additionalItems, properties, items single and tuple, patternProperties, dependencies) returns only if no sub-schema at "
     "its position carries one; only schema-parse errors escape them. Not deductive: the composition / typed / keyword-filter paths of parse_element and the preconditions of "
     "its calls (need a recursive well-formedness predicate on schemas; reported undecided). Bounded: every schema position x carrier x unsupported keyword through parse(), "
     "literal positions, cyclic documents (in-memory and through real files via the CLI entry point).",
     bounded=[B3.c20_unsupported, B3.c20_cli_cycles])

prop("C11", "other",
     'Deductive: get_children yields every element at every keyword position the orderer looks at (items and tuple items, additionalItems, contains, the elements '
     'of properties, patternProperties and dependencies values, additionalProperties, propertyNames, composition members, `not`) -- loop invariant in membership '
     'form, recursion by its own contract, under a stated shape invariant of the element objects (the dict-valued keyword attributes are dicts / property dicts); '
     '_get_path verified for all ten constant paths plus the inner `*` and `*.element` segments (itertools.chain.from_iterable modelled as list concatenation, a listed library fact). Not '
     "deductive: orderer's main loop (while True over a dict being edited, ended by StopIteration). Bounded: named dependency graphs x 20 keyword positions, "
     'call histories; thorough: every digraph on <= 3 classes x every position and every loop-free digraph on 4 classes x 4 positions.',
     bounded=[B3.c11_order])

prop("C12", "other",
     "Deductive part is small: only _Property.bind (the JSON name stays recorded as `source`, the attribute name as `name`) is under contract. The name mapping itself "
     "(_parse_attribute_name, _title_format: unicodedata, str.isidentifier, regular expressions over all of Unicode) and _ParseState.dedupe are outside the "
     "executor's subset and are decided by enumeration only -- bounded, labelled as such: every code point alone and in three contexts, every string of length <= 2 over "
     "a class alphabet, sibling pairs, titles, required-only names; each generated module is executed.",
     bounded=[B3.c12_names, B3.c12_siblings, B3.c12_titles, B3.c12_class_names, B3.c12_codepoints])

prop("C17", "other",
     'Deductive: _Property.__eq__ (same element by ==, same required flag, same JSON name; never equal to a non-property); the validators of an element are '
     'a function of its public keyword attributes (Element.validators[K] characterisation and theorem VALS-D6: sem depends only on keyword values, the type, '
     'construct); replace_bool/Const/Enum (== after deep bool aliasing is Draft-6 equality). Not deductive: Element.__eq__ itself (structural == over '
     'vars()). Bounded: all pairs of element variants one keyword/literal/property attribute/class apart: reflexive, symmetric, copies equal, == implies '
     'same verdicts and same JSON serialisation.',
     bounded=[B3.c17_equality])

prop("C18", "other",
     "custom_repr_args contract at the Args level where in reach; the step `eval(repr(x))` is text and is covered by bounded enumeration only.",
     bounded=[B3.c18_repr])

prop("C19", "other",
     "Deductive: Element.annotation per leaf class names exactly the Python type the class's type validator admits; Null/Nothing; _Property.annotation (the "
     'optional wrapper is absent exactly when the property is required or its element declares a default); ObjectMeta.annotation; Array.item_annotations / '
     'Array.annotation; CompositionElement.annotation (single branch). Not deductive: reading annotation text as a type (AllOf.annotation, unions). Bounded: '
     'the annotation text is parsed into a type term and the runtime attribute values of built models are checked against it.',
     bounded=[B3.c19_annotations])

prop("C02", "other",
     "Structured sub-obligations (declaration order via C11's contracts, dedupe, imports, class header) where in reach; the deciding tail -- CPython executes the generated text -- "
     "is bounded: documents through the real CLI entry point, module executed, classes and verdicts compared.",
     bounded=[B3.c02_generated, B3.c12_titles])

prop("C03", "other",
     "Deductive: _serialize_element[Element|String|Integer|Array], at the point where the keyword dict is handed to the recursive serialiser: every declared property sits under its JSON "
     "name, every required property's JSON name and the element's own `required` entries are listed, every keyword attribute that differs from its constructor default is "
     "carried under its own name unchanged, `default` appears exactly when the element has one (reach clauses, with a native twin evaluated by a trace hook). get_children/_get_path "
     "(C11) give the reachable classes. Not deductive: _serialize_recursive ($ref substitution), serialize_json's definitions assembly, composition / Not / object-class elements. Bounded: DSL trees (shared classes, several roots, caller definitions, class extended after a first serialisation) "
     "x values against an independent Draft-6 oracle evaluating the serialised document with its $refs.",
     bounded=[B3.c03_json])

prop("C06", "other",
     "Deductive: the serialiser half only (the _serialize_element clauses of C03) and _compose_elements; a round-trip lemma needs parser contracts (_parse_typed, _parse_composition) that are outside "
     "the subset, so the identity itself is decided by enumeration. Bounded: JSON round trip (twice) and executed Python source on the schema enumeration.",
     bounded=[B3.c06_roundtrip])

NOT_YET = {}
FIX_COMMITS = ["240c9e2", "ba1006d", "dab453b", "5a0ad53", "5fe75a7", "1c7b42d", "0339f31", "a857da5", "9e872e5", "85d1ad8", "757eca2", "d1e41a0", "8960798", "e3fd882", "13caeae", "2f55341", "9fbbe28", "f7d2b94", "84aec75", "6e9e923", "062a851", "1878bb6", "36821b6", "65320be", "18e45ca", "b75876f"]
