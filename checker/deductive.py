"""Deductive part of a check: generate and discharge the obligations of every contract tagged with the
property; for each failed obligation look for a native counterexample (model replay, then witness search)."""
import itertools
import os
import time
from concurrent.futures import ThreadPoolExecutor

from pyvc import smt
from pyvc.contracts import REG
from pyvc.engine import Engine
from runtime import monitor, pools

_engine = None
_reports = {}


def engine():
    global _engine
    if _engine is None:
        _engine = Engine()
    return _engine


def contracts_for(pid, only=None):
    out = []
    # C14's deductive part *is* C08's frame argument (no shared writes): every contract of C08 belongs to it
    want = {pid} | ({"C08"} if pid == "C14" else set())
    for (key, inst), c in REG.items():
        if want & set(c.props) and not c.trusted and not c.bounded_only:
            if only and only not in c.name:
                continue
            out.append(c)
    # a lemma over contracts is proved only together with the lemmas it cites: pull those in whatever property they are listed under
    by_name = {c.name: c for c in REG.values()}
    todo = list(out)
    while todo and not only:
        c = todo.pop()
        for u in c.ghost.get("uses", []) if c.ghost.get("lemma") else []:
            d = by_name.get(u)
            if d is not None and d not in out and not d.trusted and not d.bounded_only:
                out.append(d)
                todo.append(d)
    return out


def base_key(obl_name):
    """Obligation name without ordinal and line: stable identity for known-findings matching."""
    head, _, tail = obl_name.partition("/")
    kind = tail.split("#")[0]
    return f"{head}/{kind}"


def spread(it, limit):
    """The first `limit` entries of a pool in an order that covers it evenly (0, n/2, n/4, 3n/4, ...): pools enumerate simple
    elements first, and taking a prefix kept missing the entries that matter (tuple items, declared properties, nested values)."""
    lst = list(itertools.islice(it, limit))
    n = len(lst)
    if n <= 2:
        return lst
    bits = max(1, (n - 1).bit_length())
    order = sorted(range(n), key=lambda i: int(format(i, f"0{bits}b")[::-1], 2))
    return [lst[i] for i in order]


def witness_search(contract, clause_kinds=None, seed=0, limit=3000, budget=20.0):
    """Run the real function under the runtime contract over its pool; first native violation wins."""
    t0 = time.time()
    ns = None
    n = 0
    try:
        for fn, args in spread(pools.pool(contract, seed=seed, limit=limit), limit):
            n += 1
            try:
                res = monitor.check_call(contract, fn, args)
            except Exception as e:   # the monitor itself failed: not a verdict
                continue
            if isinstance(res, dict):
                res["tried"] = n
                return res, n
            if time.time() - t0 > budget:
                break
    except Exception:
        pass
    return None, n


CLAUSE_OF_KIND = {"frame": ("frame",), "safe": ("raises",), "post@return": ("returns", "raises", "warns"),
                  "pre": None, "kind": None, "inv-init": None, "inv-keep": None, "assert": None}


def model_values(eng, o, timeout=10.0, rep=None):
    text = eng.vc_text(o, with_check=False, rep=rep)
    terms = list(o.inputs.values())
    vals = smt.get_values(text, terms, timeout=timeout)
    if vals is None:
        return None
    return {name: vals.get(t) for name, t in o.inputs.items()}


def run(runobj, spec, timeout=10.0, only=None, verbose=False):
    pid = runobj.pid
    eng = engine()
    cs = contracts_for(pid, only)
    keep = os.path.join(os.environ.get("VERIF_OUT") or os.path.dirname(os.path.dirname(os.path.abspath(__file__))), "out", "smt", pid)
    res = {"functions": [], "obligations": 0, "discharged": 0, "undecided": [], "out_of_subset": [],
           "failed": [], "by_backend": {}, "solver_s": 0.0, "covers_sat": 0, "dead_paths": 0,
           "trusted_base": set(), "samples": [], "assumed_contracts": set(), "trivial": 0}
    eng.defer = True
    eng.cover_timeout = 1.0 if runobj.tier == "quick" else 5.0
    eng.final_pass = runobj.tier != "quick"
    reps = [(c, eng.verify(c, timeout=timeout)) for c in cs]
    eng.discharge_many([r for _, r in reps], timeout, jobs=int(os.environ.get("PYVC_JOBS", "15")))
    undecided_by_contract = {}
    oos_by_contract = {}
    # specification-level lemmas (spec/lemma_stubs.py carriers) may cite other lemmas: a lemma whose cited lemma is not
    # discharged in this run is only conditionally proved and is reported undecided
    open_lemmas = {c.name for c, rep in reps if c.ghost.get("lemma") and (rep.out_of_subset or any(o.result.status != "unsat" for o in rep.obligations))}
    present = {c.name for c, rep in reps}
    try:
        for c, rep in reps:
            ck = (c.key, c.inst)
            frec = {"qualname": c.name, "key": c.key, "sha256": rep.sha, "obligations": len(rep.obligations),
                    "discharged": 0, "paths": rep.paths, "out_of_subset": rep.out_of_subset,
                    "trivially_true": rep.trivial, "wall_s": round(rep.wall, 2), "calls_by_contract": rep.called}
            if c.ghost.get("lemma"):
                frec["kind"] = "lemma over contracts (no code: hypotheses are clauses of the cited contracts/lemmas)"
                frec["cites"] = list(c.ghost.get("uses", []))
                blocked = [u for u in c.ghost.get("uses", []) if u in open_lemmas or u not in present]
                if blocked:
                    for o in rep.obligations:
                        if o.result.status == "unsat":
                            o.result = smt.Result("unknown", "", o.result.time, "conditional", list(o.result.attempts) + [("depends-on", "undecided lemma " + ",".join(blocked[:3]), 0.0)], "")
            res["trivial"] += rep.trivial
            if rep.out_of_subset:
                res["out_of_subset"].append({"function": c.name, "reason": rep.out_of_subset})
                res["functions"].append(frec)
                if verbose:
                    print(f"  {c.name}: OUT OF SUBSET {rep.out_of_subset}")
                continue
            if not rep.obligations and not rep.trivial:
                res["out_of_subset"].append({"function": c.name, "reason": "engine fault: zero obligations"})
            entry_dead = False
            outcome_covers = [o for o in rep.covers if "entry" not in o.detail]
            for o in rep.covers:
                if o.result.status == "sat":
                    res["covers_sat"] += 1
                elif o.result.status == "unsat":
                    res["dead_paths"] += 1
                    if "entry" in o.detail:
                        entry_dead = True
            if outcome_covers and all(o.result.status == "unsat" for o in outcome_covers):
                entry_dead = True     # every path to an outcome is infeasible: the obligations hold vacuously
            if entry_dead:
                res["out_of_subset"].append({"function": c.name, "reason": "vacuous: requires clause unsatisfiable or every outcome path infeasible (inconsistent assumptions)"})
                res["functions"].append(frec)
                continue
            for t in rep.trusted:
                res["trusted_base"].add(t)
            for nm in rep.called:
                res["assumed_contracts"].add(nm)
            for o in rep.obligations:
                res["obligations"] += 1
                r = o.result
                res["solver_s"] += sum(a[2] for a in r.attempts)
                if r.status == "unsat":
                    res["discharged"] += 1
                    frec["discharged"] += 1
                    res["by_backend"][r.solver] = res["by_backend"].get(r.solver, 0) + 1
                    if len(res["samples"]) < 6:
                        res["samples"].append({"obligation": o.name, "solver": r.solver, "s": round(r.time, 3), "what": o.detail[:120]})
                elif r.status == "sat" or (o.kind == "frame" and o.goal == "false" and r.status in ("unknown", "anomaly")):
                    # a frame obligation whose goal is literally false is a *static* violation (the written object is
                    # syntactically non-fresh and outside `modifies`); only a refuted (dead) path discharges it
                    handle_failed(runobj, eng, c, o, res, keep, timeout, rep)
                else:
                    res["undecided"].append({"obligation": o.name, "status": r.status, "what": o.detail[:160],
                                             "attempts": r.attempts})
                    # (a path outside the subset is searched too, after the undecided ones: see the loop below)
                    (undecided_by_contract if not getattr(o, "oos", False) else oos_by_contract).setdefault(id(c), (c, []))[1].append(o)
            if verbose:
                print(f"  {c.name}: {frec['discharged']}/{frec['obligations']} paths={rep.paths} {rep.wall:.1f}s")
            res["functions"].append(frec)
    finally:
        pass
    # CPython cross-check: every contract under verification is also run natively over its concrete pool.  This shows the
    # requires clause is satisfiable by real inputs (non-vacuity) and that what the solver accepted is true of CPython's
    # behaviour on those inputs (a native violation of a discharged contract would expose an unsound encoding).
    per = 40 if runobj.tier == "quick" else 1500
    t_m = time.time()
    mon = {}

    def _suspect(cr):
        # contracts whose proof did not go through (a path left the subset, an obligation failed or stayed undecided) are run
        # natively first: the time budget used to end before they were reached in properties with hundreds of contracts
        c_, rep_ = cr
        return 0 if (rep_.out_of_subset or getattr(rep_, "oos_paths", None) or any(o.result.status != "unsat" for o in rep_.obligations)) else 1
    for c, rep in sorted(reps, key=_suspect):
        if time.time() - t_m > (30.0 if runobj.tier == "quick" else 600.0):
            break
        n_eval = n_skip = 0
        first_bad = None
        try:
            for fn, args in spread(pools.pool(c, seed=runobj.seed, limit=max(per * 6, 1500)), max(per * 6, 1500)):
                try:
                    r = monitor.check_call(c, fn, args)
                except Exception:
                    continue
                if r == "skip":
                    n_skip += 1
                    continue
                n_eval += 1
                if isinstance(r, dict) and first_bad is None:
                    first_bad = r
                if n_eval >= per:
                    break
        except Exception:
            pass
        mon[c.name] = {"evaluated": n_eval, "requires_false": n_skip}
        if first_bad is not None and id(c) not in undecided_by_contract and not any(f["obligation"].startswith(c.name + "/") for f in res["failed"]):
            left = bool(getattr(rep, "oos_paths", None))
            payload = {"obligation": f"{c.name}/native", "what": ("contract violated natively (a path of the function left the verifier's subset, so its obligations were undecided): "
                                                                    if left else "contract violated natively although its obligations were discharged: ") + f"{first_bad['detail'][:200]}",
                       "contract": c.name, "function": c.key, "witness": first_bad}
            runobj.classify(f"{c.name}/native", payload)
    res["monitor_evaluations"] = mon
    # an undecided obligation is never a verdict by itself; but the same contract is run natively over its pool:
    # a native violation of the contract is a real counterexample and is reported with its replay
    wbudget = 25.0 if runobj.tier == "quick" else 240.0
    t_w = time.time()
    for c, obls in list(undecided_by_contract.values()) + [v for k, v in oos_by_contract.items() if k not in undecided_by_contract]:
        left = wbudget - (time.time() - t_w)
        if left <= 0.5:
            break
        wit, tried = witness_search(c, None, seed=runobj.seed, budget=min(8.0 if runobj.tier == "quick" else 30.0, left))
        if wit:
            o = obls[0]
            payload = {"obligation": o.name, "what": f"{o.kind} obligation undecided by the solvers ({o.detail[:120]}); the contract is violated natively: {wit['detail'][:200]}",
                       "contract": c.name, "function": c.key, "witness": wit, "witness_pool_tried": tried,
                       "solver_output": str(o.result.attempts)}
            res["failed"].append({"obligation": o.name, "witness": True, "via": "undecided + native witness"})
            runobj.classify(base_key(o.name), payload)
    # inductive lemmas used as axioms by these contracts: their induction steps are obligations of this run
    from checker import lemmas as L
    need = []
    for c, rep in reps:
        for lem in list(getattr(c, "lemmas", []) or []) + list(getattr(rep, "lemma_instances", []) or []):
            if lem not in need:
                need.append(lem)
                if lem.startswith("RB") and "RB" not in need:
                    need.append("RB")
        if "is_json" in (c.requires or "") and "JSON-ELEM" not in need:
            need.append("JSON-ELEM")
    for r in L.run(need, timeout=max(timeout, 20.0)):
        res["obligations"] += 1
        nm = f"lemma/{r['lemma']}/{r['step']}"
        if r["status"] == "unsat":
            res["discharged"] += 1
            res["by_backend"][r["solver"]] = res["by_backend"].get(r["solver"], 0) + 1
        else:
            res["undecided"].append({"obligation": nm, "status": r["status"], "what": "induction step of a lemma used as an axiom", "attempts": r["attempts"]})
    if need:
        res["trusted_base"].add("induction principle over list/object indices and over JSON value structure (the lemma steps in spec/lemmas are discharged; their composition is the meta-argument)")
        res["lemmas"] = need
    res["trusted_base"] = sorted(res["trusted_base"])
    res["assumed_contracts"] = sorted(res["assumed_contracts"])
    res.pop("_hf_spent", None)
    res.pop("_hf_count", None)
    return res


def handle_failed(runobj, eng, c, o, res, keep, timeout, rep=None):
    """A sat obligation: find a native witness; classify against known findings; record."""
    os.makedirs(keep, exist_ok=True)
    text = eng.vc_text(o, rep=rep)
    fname = os.path.join(keep, "".join(ch if ch.isalnum() or ch in "._-#@[]" else "_" for ch in o.name) + ".smt2")
    open(fname, "w").write(text)
    model = None
    kinds = CLAUSE_OF_KIND.get(o.kind.split("[")[0], None)
    # model extraction and the witness search cost up to ~30 s per failed obligation: on a tree where one change fails dozens of
    # obligations they are done for the first three of each contract and within an overall budget; the rest are still reported
    # (with the solver's verdict, marked no-failing-input-found)
    spent = res.setdefault("_hf_spent", 0.0)
    per_c = res.setdefault("_hf_count", {})
    per_c[c.name] = per_c.get(c.name, 0) + 1
    wit, tried = None, 0
    if per_c[c.name] <= 3 and spent < (150.0 if runobj.tier == "quick" else 900.0):
        t_hf = time.time()
        try:
            model = model_values(eng, o, rep=rep)
        except Exception:
            model = None
        wit, tried = witness_search(c, kinds, seed=runobj.seed)
        res["_hf_spent"] = spent + (time.time() - t_hf)
    key = base_key(o.name)
    payload = {"obligation": o.name, "what": f"{o.kind} obligation failed: {o.detail}",
               "contract": c.name, "function": c.key, "smt_file": os.path.relpath(fname, os.path.dirname(keep)),
               "solver": o.result.solver, "solver_output": o.result.output[:400],
               "model": {k: repr(v)[:300] for k, v in (model or {}).items()},
               "witness": wit, "witness_pool_tried": tried,
               "replay_cmd": f"./check {runobj.pid} --replay <this file>"}
    res["failed"].append({"obligation": o.name, "witness": bool(wit)})
    runobj.classify(key, payload)
