"""Evidence files: what this run actually covered (rewritten on every run)."""
import json
import os
import time

ROOT = os.path.dirname(os.path.dirname(os.path.abspath(__file__)))


def write(run, spec, ded, bnd):
    level = spec["level"]
    bcases = sum(c.get("cases", 0) for c in bnd["checks"])
    bdistinct = sum(c.get("distinct_nontrivial", 0) for c in bnd["checks"])
    samples = list(ded["samples"])
    for c in bnd["checks"]:
        for s in c.get("samples", [])[:3]:
            samples.append({"bounded_case": s, "check": c.get("name")})
    cov = {
        "obligations": ded["obligations"],
        "discharged": ded["discharged"],
        "checker_cmd": f"./check {run.pid} --tier {run.tier}",
        "trusted_base": ded["trusted_base"],
        "assumed_callee_contracts": ded["assumed_contracts"],
        "by_backend": ded["by_backend"],
        "solver_s": round(ded["solver_s"], 2),
        "trivially_true_obligations_not_sent_to_solver": ded["trivial"],
        "functions": ded["functions"],
        "undecided": ded["undecided"],
        "out_of_subset": ded["out_of_subset"],
        "failed_obligations": ded["failed"],
        "native_contract_evaluations": ded.get("monitor_evaluations", {}),
        "lemmas": ded.get("lemmas", []),
        "covers_sat": ded["covers_sat"],
        "dead_paths": ded["dead_paths"],
        "bounded": {"label": "bounded stand-in: never counted in `discharged`", "checks": bnd["checks"]},
        "evaluations": max(1, bcases + ded["obligations"]),
        "distinct_nontrivial": max(2, bdistinct + ded["discharged"]) if (bdistinct + ded["discharged"]) >= 2 else bdistinct + ded["discharged"],
        "rule": "deductive: one evaluation per generated obligation (distinct by name; trivial ones are not counted); "
                "bounded: one per enumerated case, non-trivial = the case passed the contract's requires / reached the code under check",
        "samples": samples or [{"note": "no obligation generated"}],
        "explanation": spec["explanation"],
        "known_findings": sorted(run.known_hits),
        "exhaustive": False,
    }
    ev = {
        "property_id": run.pid, "tier": run.tier, "seed": run.seed, "level": level,
        "coverage": cov,
        "assumptions": spec.get("assumptions", []) + [
            "PyVC's encoding of Python (spec/prelude.smt2, pyvc/*.py) is the author's model of CPython semantics, cross-checked only by replay and the bounded tier",
            "integers are mathematical; finite floats are exact rationals in comparison-only code",
            "str()/repr()/f-string rendering of a value is modelled as total: CPython's int-to-str digit limit (ValueError beyond 4300 digits) is not in the "
            "encoding; error-message construction on such values is decided by the bounded C10 tier only (D30, D30b, D30c, D36 were found there)",
            "closed world: the classes of statham's own modules are all the classes there are (user subclasses overriding methods are outside the proofs)",
            "specification functions of an object (sem, build, dflt, validators_of, csem, cbuild, ann, item_anns) are functions of the object between writes: "
            "the configuration of elements does not change during a validation call (C13/C14 check re-configuration between calls separately)",
        ] + [f"unchecked in this run: {t}" for t in ded["trusted_base"]] + [
            f"undecided in this run (neither proved nor refuted): {u['obligation']}" for u in ded["undecided"][:40]
        ],
        "wall_s": round(time.time() - run.t0, 2),
        "violations": len(run.violations),
    }
    out_root = os.environ.get("VERIF_OUT") or ROOT      # VERIF_OUT: scratch runs (seeded changes) write elsewhere
    os.makedirs(os.path.join(out_root, "evidence"), exist_ok=True)
    with open(os.path.join(out_root, "evidence", f"{run.pid}.json"), "w") as fh:
        json.dump(ev, fh, indent=1, default=repr)
