"""./check <property> [--tier quick|thorough] [--replay FILE] [--list]

Exit 0: property held on everything explored (known findings are printed, not alarms)
Exit 1: VIOLATION property=<id> replay=<path> printed
Exit 2: nothing could be decided;  Exit 3: the checker itself could not run
"""
import argparse
import fnmatch
import importlib
import json
import os
import pkgutil
import sys
import time
import traceback

ROOT = os.path.dirname(os.path.dirname(os.path.abspath(__file__)))
sys.path.insert(0, ROOT)


def load_contracts():
    import contracts
    for m in pkgutil.iter_modules(contracts.__path__):
        importlib.import_module("contracts." + m.name)
    from pyvc.contracts import REG
    return REG


def load_findings():
    path = os.path.join(ROOT, "known_findings.json")
    if not os.path.exists(path):
        return []
    return json.load(open(path))


class Run:
    def __init__(self, pid, tier, seed):
        self.pid = pid
        self.tier = tier
        self.seed = seed
        self.violations = []      # dicts: key, what, replay payload
        self.known_hits = {}      # finding id -> list of keys
        self.findings = [f for f in load_findings() if pid in f.get("properties", [])]
        self.t0 = time.time()

    def classify(self, key, payload):
        """Attribute a failing case to a known finding (by key pattern or class predicate) or report it."""
        from checker import finding_classes
        for f in self.findings:
            if f.get("status") != "known":
                continue
            for pat in f.get("keys", []):
                if fnmatch.fnmatchcase(key, pat):
                    self.known_hits.setdefault(f["id"], []).append(key)
                    return f["id"]
            pred = getattr(finding_classes, f["id"], None)
            if pred is not None:
                try:
                    if pred(key, payload):
                        self.known_hits.setdefault(f["id"], []).append(key)
                        return f["id"]
                except Exception:
                    pass
        self.violations.append({"key": key, **payload})
        return None


def run_isolated(fn, run):
    """Run one bounded enumeration in a forked child with a pristine copy of this interpreter; its result and what it added to
    the run (violations, known-finding hits) come back through a pipe.  Falls back to running in-process if anything about the
    isolation itself fails (never a verdict)."""
    import pickle
    if os.environ.get("VERIF_NO_FORK") or not hasattr(os, "fork"):
        return fn(run)
    rfd, wfd = os.pipe()
    sys.stdout.flush()
    pid = os.fork()
    if pid == 0:
        code = 0
        try:
            os.close(rfd)
            n_v = len(run.violations)
            hits0 = {k: len(v) for k, v in run.known_hits.items()}
            res = fn(run)
            new_hits = {k: v[hits0.get(k, 0):] for k, v in run.known_hits.items()}
            try:
                blob = pickle.dumps(("ok", res, run.violations[n_v:], new_hits))
            except Exception:
                blob = pickle.dumps(("ok", json.loads(json.dumps(res, default=repr)), json.loads(json.dumps(run.violations[n_v:], default=repr)), new_hits))
            with os.fdopen(wfd, "wb") as fh:
                fh.write(blob)
        except BaseException:
            code = 17
            try:
                with os.fdopen(wfd, "wb") as fh:
                    fh.write(pickle.dumps(("error", traceback.format_exc())))
            except Exception:
                pass
        finally:
            sys.stdout.flush()
            os._exit(code)
    os.close(wfd)
    with os.fdopen(rfd, "rb") as fh:
        blob = fh.read()
    os.waitpid(pid, 0)
    try:
        msg = pickle.loads(blob)
    except Exception:
        msg = ("error", "no result from the child")
    if msg[0] != "ok":
        print(f"CHECKER-NOTE: isolation of {getattr(fn, '__name__', fn)} failed, running in-process: {str(msg[1])[-200:]}")
        return fn(run)
    _, res, viols, hits = msg
    run.violations.extend(viols)
    for k, v in hits.items():
        run.known_hits.setdefault(k, []).extend(v)
    return res


def write_replay(pid, idx, payload):
    out_root = os.environ.get("VERIF_OUT") or ROOT
    d = os.path.join(out_root, "replays", pid)
    os.makedirs(d, exist_ok=True)
    name = "".join(c if c.isalnum() or c in "._-" else "_" for c in payload.get("key", f"v{idx}"))[:120]
    path = os.path.join(d, f"{idx:02d}_{name}.json")
    with open(path, "w") as fh:
        json.dump(payload, fh, indent=1, default=repr)
    return os.path.relpath(path, out_root)


def main(argv=None):
    ap = argparse.ArgumentParser()
    ap.add_argument("pid")
    ap.add_argument("--tier", default=os.environ.get("VERIF_TIER", "quick"))
    ap.add_argument("--replay")
    ap.add_argument("--timeout", type=float, default=None)
    ap.add_argument("--only", default=None, help="restrict to contracts whose name contains this")
    ap.add_argument("--verbose", "-v", action="store_true")
    args = ap.parse_args(argv)
    seed = int(os.environ.get("VERIF_SEED", "0") or 0)
    tier = args.tier if args.tier in ("quick", "thorough") else "quick"
    try:
        from pyvc.front import ensure_repo_on_path, REPO
        ensure_repo_on_path()
        import statham  # noqa
        from checker import props
    except Exception:
        traceback.print_exc()
        print("CHECKER-ERROR: cannot import the tree under verification")
        return 3
    if args.replay:
        from checker import replay
        return replay.run(args.pid, args.replay)
    if args.pid not in props.PROPS:
        print(f"unknown or unclaimed property {args.pid}")
        return 3
    load_contracts()
    run = Run(args.pid, tier, seed)
    spec = props.PROPS[args.pid]
    from checker import deductive, evidence
    try:
        # The bounded enumerations run first, each in a forked child: they compare the code with itself in several ways (a model
        # against its flat twin, a parse against a re-parse), so interpreter state left behind by earlier work in this process --
        # e.g. a cache introduced by the change under test and filled on a base class by the native contract checks -- can make
        # both sides wrong in the same way and hide the difference (seeded change C15-A was hidden exactly so).
        bnd = {"checks": [], "label": "bounded"}
        for fn in spec.get("bounded", []):
            t1 = time.time()
            res = run_isolated(fn, run)
            res["wall_s"] = round(time.time() - t1, 2)
            bnd["checks"].append(res)
        ded = deductive.run(run, spec, timeout=args.timeout or (8.0 if tier == "quick" else 90.0),
                            only=args.only, verbose=args.verbose)
    except Exception:
        traceback.print_exc()
        print("CHECKER-ERROR: internal error (not a verdict)")
        return 3
    # report
    for fid, keys in run.known_hits.items():
        f = next(x for x in run.findings if x["id"] == fid)
        print(f"KNOWN-FINDING: property={args.pid} {fid} {f['what']} [{len(keys)} case(s), e.g. {keys[0][:100]}]")
    rc = 0
    for i, v in enumerate(run.violations[:20]):
        path = write_replay(args.pid, i, v)
        tail = "" if v.get("witness") or v.get("replayed") else " no-failing-input-found"
        print(f"VIOLATION property={args.pid} replay={path}{tail}")
        print(f"  {v.get('key')}: {str(v.get('what'))[:300]}")
        rc = 1
    evidence.write(run, spec, ded, bnd)
    if rc == 0 and ded["obligations"] == 0 and not bnd["checks"]:
        print("nothing was decided")
        return 2
    print(f"{args.pid} {tier}: obligations {ded['discharged']}/{ded['obligations']} discharged, "
          f"{len(ded['undecided'])} undecided, {len(ded['out_of_subset'])} out of subset; "
          f"bounded cases {sum(c.get('cases', 0) for c in bnd['checks'])}; "
          f"violations {len(run.violations)}; known findings {sorted(run.known_hits)}; {time.time() - run.t0:.1f}s")
    return rc


if __name__ == "__main__":
    sys.exit(main())
