"""Input classes of the known findings (committed; never written at run time).
Each function: (key, payload) -> bool: does this failing case belong to the finding's class?"""

import re


def D19(key, payload):
    """date-time check, a timestamp whose seconds field is 60."""
    m = re.match(r"C16-formats:date-time:\d{4}-\d\d-\d\d[Tt]\d\d:\d\d:60([.]\d+)?([Zz]|[+-]\d\d:\d\d)$", key)
    return bool(m) and "rejected" in str(payload.get("what", ""))


def _schema_of_key(key):
    import json
    body = key.split(":", 1)[1]
    if body.startswith("parse:"):
        body = body[len("parse:"):]
    body = body.split(" <- ")[0]
    for suffix in (" [json]", " [python]", " [inner]"):
        if body.endswith(suffix):
            body = body[: -len(suffix)]
    return json.loads(body)


def _has_colliding_names(S):
    from statham.schema.parser import _parse_attribute_name
    if isinstance(S, dict):
        props = S.get("properties")
        if isinstance(props, dict):
            names = [_parse_attribute_name(k) for k in props]
            if len(set(names)) < len(names):
                return True
        return any(_has_colliding_names(v) for v in S.values())
    if isinstance(S, list):
        return any(_has_colliding_names(v) for v in S)
    return False


def D10(key, payload):
    """pipeline-style keys whose schema has sibling property names collapsing onto one attribute name."""
    if "D10-shape" in (payload.get("tags") or []):
        return True
    try:
        return _has_colliding_names(_schema_of_key(key))
    except Exception:
        return False


def D9(key, payload):
    """the check tagged the case: some key of the value equals the Python name of a renamed property."""
    return "D9-shape" in (payload.get("tags") or [])


D12_TITLES = ['1abc', 'Array', 'List', 'Maybe', 'None', 'Object', 'Property', 'String', 'Union', '_', 'array', 'list', 'maybe', 'none', 'object', 'property', 'string', 'true', 'union', 'é', '日本']


def D12(key, payload):
    """title checks (C12-titles, C02) on exactly the titles recorded when the finding was made."""
    import json
    m = re.match(r"(C12-titles|C02-titles):(.*?)( \[python\])?$", key)
    if not m:
        return False
    try:
        return json.loads(m.group(2)) in D12_TITLES
    except Exception:
        return False


def D32(key, payload):
    return "D32-shape" in (payload.get("tags") or [])


def D17(key, payload):
    tags = payload.get("tags") or []
    return "D17-literals" in tags or "D17-names" in tags


def D21(key, payload):
    return "D21-shape" in (payload.get("tags") or [])


def D20(key, payload):
    return "D20-shape" in (payload.get("tags") or [])


def D26(key, payload):
    return "D26-shape" in (payload.get("tags") or [])


def D15(key, payload):
    return "D15-shape" in (payload.get("tags") or []) and "does not resolve" in str(payload.get("what", ""))


def D28(key, payload):
    return "D28-shape" in (payload.get("tags") or [])


def D30(key, payload):
    return "D30-shape" in (payload.get("tags") or [])
