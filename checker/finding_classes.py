"""Input classes of the known findings (committed; never written at run time).
Each function: (key, payload) -> bool: does this failing case belong to the finding's class?"""
