"""Input classes of the known findings (committed; never written at run time).
Each function: (key, payload) -> bool: does this failing case belong to the finding's class?"""

import re


def D19(key, payload):
    """date-time check, a timestamp whose seconds field is 60."""
    m = re.match(r"C16-formats:date-time:\d{4}-\d\d-\d\d[Tt]\d\d:\d\d:60([.]\d+)?([Zz]|[+-]\d\d:\d\d)$", key)
    return bool(m) and "rejected" in str(payload.get("what", ""))
