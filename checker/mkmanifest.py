import json,os,sys
ROOT=os.path.dirname(os.path.dirname(os.path.abspath(__file__)))
sys.path.insert(0,ROOT)
from checker import props
props_all=[json.loads(l) for l in open(os.path.join(ROOT,'properties.jsonl'))]
checks=[]
for pid,s in sorted(props.PROPS.items()):
    checks.append({"property_id":pid,"quick_cmd":f"./check {pid} --tier quick","thorough_cmd":f"./check {pid} --tier thorough",
      "evidence_file":f"evidence/{pid}.json","replay_cmd_template":f"./check {pid} --replay {{path}}","engine":"pyvc",
      "level_claimed":{"category":s["level"],"text":s["explanation"],"design_ref":"DESIGN.md section 8 ("+pid+")"},
      "level_note":s.get("level_note","Trusted: PyVC's encoding of Python semantics, the SMT solvers, library axioms listed in evidence.trusted_base, contracts of callees marked assumed."),
      "technique":s.get("technique","contract-based deductive verification: VCs generated from the real source by PyVC, discharged by z3/cvc5; bounded runtime-contract stand-in where labelled")})
na=[{"property_id":p["id"],"reason":props.NOT_YET.get(p["id"],"check not built yet in this session; see DESIGN.md section 11")} for p in props_all if p["id"] not in props.PROPS]
m={"version":1,"setup_cmd":"./setup.sh",
 "hooks":{"guard":"STATHAM_VERIF","enable":"no hooks: contracts are sidecars under /verif/contracts, monitors are installed from outside; the guard is unused by /repo",
   "baseline_off_cmd":"cd /repo && /venv/bin/python -m pytest -ra -q -p no:cacheprovider --timeout=900 --continue-on-collection-errors",
   "source_commits":[],"add_only":True},
 "engines":[{"name":"pyvc","path":"pyvc/","serves_properties":sorted(props.PROPS),"kind_free_text":"own VC generator: Python ast of the real source -> SMT-LIB (universal value sort) -> z3 5.1 / z3 4.8.12 / cvc5; sidecar contracts; runtime monitors of the same contracts for replay and the bounded tier"}],
 "checks":checks,"not_applicable":na,
 "notes":"No hook or instrumentation commit was made in /repo (hooks.source_commits is empty). Every commit made in /repo is an unguarded `fix:` repair of a genuine defect ("+", ".join(props.FIX_COMMITS)+"); known_findings.json lists each with its property and failing input as `fixed`. Evidence level is `other` wherever part of the property is covered only by the bounded stand-in."}
json.dump(m,open(os.path.join(ROOT,'MANIFEST.json'),'w'),indent=1)
print(len(checks),'checks',len(na),'n/a')
