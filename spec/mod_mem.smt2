; Lemma MEM-EX (spec/lemmas/mem_ex_step.smt2): membership by == has a witness index, and an index is a witness
(assert (forall ((s (Seq V)) (x V)) (! (=> (seq_has_pyeq s x 0) (exists ((q Int)) (and (<= 0 q) (< q (seq.len s)) (py_eq (seq.nth s q) x)))) :pattern ((seq_has_pyeq s x 0)))))
(assert (forall ((s (Seq V)) (x V) (q Int)) (! (=> (and (<= 0 q) (< q (seq.len s)) (py_eq (seq.nth s q) x)) (seq_has_pyeq s x 0)) :pattern ((seq_has_pyeq s x 0) (seq.nth s q)))))
