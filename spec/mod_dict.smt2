; Lemma DICT-ITEM (spec/lemmas/dict_*.smt2): in a well-formed dict, the j-th item is what lookup by its key returns,
; and every present key is the key of some item
(assert (forall ((d V) (j Int)) (! (=> (and (dict_wf d) (<= 0 j) (< j (seq.len (ditems d))))
   (and (dhas d (pkey (seq.nth (ditems d) j))) (= (dval d (pkey (seq.nth (ditems d) j))) (pval (seq.nth (ditems d) j))))) :pattern ((seq.nth (ditems d) j)))))
(assert (forall ((d V) (k String)) (! (=> (and (dict_wf d) (dhas d k))
   (exists ((j Int)) (and (<= 0 j) (< j (seq.len (ditems d))) (= (pkey (seq.nth (ditems d) j)) k)))) :pattern ((dhas d k)))))
