; Lemma RB-MEM (spec/lemmas/rb_mem_step.smt2): membership in an aliased list by == is Draft-6 membership, from any start index
(assert (forall ((s V) (v V) (j Int)) (! (=> (and (is_json s) (k_list s) (is_json v) (<= 0 j)) (= (seq_has_pyeq (lval (rbd s)) (rbd v) j) (seq_has_jsoneq (lval s) v j))) :pattern ((seq_has_pyeq (lval (rbd s)) (rbd v) j)))))
