; deep bool aliasing (rbd): what replace_bool must compute so that == coincides with Draft-6 equality.
; Characterised axiomatically (S_TRUE/S_FALSE are the module sentinels, registered as sentinel 1 and 2 by the engine).

(declare-fun rbd (V) V)
(define-fun S_TRUE () V (v_sent 1))
(define-fun S_FALSE () V (v_sent 2))
(assert (forall ((a V)) (! (=> (k_bool a) (= (rbd a) (ite (bval a) S_TRUE S_FALSE))) :pattern ((rbd a)))))
(assert (forall ((a V)) (! (=> (k_list a) (and (k_list (rbd a)) (= (seq.len (lval (rbd a))) (seq.len (lval a))))) :pattern ((rbd a)))))
(assert (forall ((a V) (q Int)) (! (=> (and (k_list a) (<= 0 q) (< q (seq.len (lval a)))) (= (seq.nth (lval (rbd a)) q) (rbd (seq.nth (lval a) q)))) :pattern ((seq.nth (lval (rbd a)) q)))))
(assert (forall ((a V)) (! (=> (k_dict a) (and (k_dict (rbd a)) (= (seq.len (ditems (rbd a))) (seq.len (ditems a))))) :pattern ((rbd a)))))
(assert (forall ((a V) (q Int)) (! (=> (and (k_dict a) (<= 0 q) (< q (seq.len (ditems a))))
   (and ((_ is v_pair) (seq.nth (ditems (rbd a)) q)) (= (pkey (seq.nth (ditems (rbd a)) q)) (pkey (seq.nth (ditems a) q)))
        (= (pval (seq.nth (ditems (rbd a)) q)) (rbd (pval (seq.nth (ditems a) q)))))) :pattern ((seq.nth (ditems (rbd a)) q)))))
(assert (forall ((a V)) (! (=> (not (or (k_bool a) (k_list a) (k_dict a))) (= (rbd a) a)) :pattern ((rbd a)))))
