; Lemma JSON-ELEM (induction over the index; spec/lemmas/json_elem_*.smt2): members of a JSON array / object are JSON values
(assert (forall ((s (Seq V)) (j Int)) (! (=> (and (is_json_seq s 0) (<= 0 j) (< j (seq.len s))) (is_json (seq.nth s j))) :pattern ((is_json_seq s 0) (seq.nth s j)))))
(assert (forall ((s (Seq V)) (j Int)) (! (=> (and (is_json_vals s 0) (<= 0 j) (< j (seq.len s))) (is_json (pval (seq.nth s j)))) :pattern ((is_json_vals s 0) (seq.nth s j)))))
