"""Executable twins of the specification vocabulary (spec/prelude.smt2, spec/speclib.smt2).

Used by the runtime contract monitors (replay, witness search, bounded tier).  `sem`/`build`
at run time are *the real element call* (call-by-contract made concrete); the independent
Draft-6 oracle lives in spec/draft6.py.
"""
import math
import re
import warnings


def _np():
    from statham.schema.constants import NotPassed
    return NotPassed


def is_np(x):
    return isinstance(x, _np())


def is_none(x):
    return x is None


def is_bool(x):
    return isinstance(x, bool)


def is_int(x):
    return isinstance(x, int) and not isinstance(x, bool)


def is_float(x):
    return isinstance(x, float)


def is_num(x):
    return is_int(x) or (is_float(x) and math.isfinite(x))


def is_pynum(x):
    return is_num(x) or is_bool(x)


def is_str(x):
    return isinstance(x, str)


def is_list(x):
    return type(x) is list


def is_tuple(x):
    return type(x) is tuple


def is_dict(x):
    return type(x) is dict


def is_set(x):
    return isinstance(x, (set, frozenset))


def is_cls(x):
    return isinstance(x, type)


def is_obj(x):
    return not (x is None or is_np(x) or isinstance(x, (bool, int, float, str, list, tuple, dict, set, frozenset, type)))


def dict_wf(d):
    return type(d) is dict and all(isinstance(k, str) for k in d)


def num(x):
    return x


def truthy(x):
    return bool(x)


def has(d, k):
    return isinstance(d, dict) and k in d


def key_at(d, j):
    return list(d.keys())[j]


def val_at(d, j):
    return list(d.values())[j]


def forall(f, hi, lo=0):
    return all(f(j) for j in range(lo, hi))


def exists(f, hi, lo=0):
    return any(f(j) for j in range(lo, hi))


def implies(a, b):
    return (not a) or bool(b)


def iff(a, b):
    return bool(a) == bool(b)


def is_json(x):
    if x is None or isinstance(x, (bool, str)):
        return True
    if isinstance(x, int):
        return True
    if isinstance(x, float):
        return math.isfinite(x)
    if type(x) is list:
        return all(is_json(i) for i in x)
    if type(x) is dict:
        return all(isinstance(k, str) and is_json(v) for k, v in x.items())
    return False


def json_eq(a, b):
    """Draft-6 instance equality: booleans equal only booleans; numbers by mathematical value."""
    if is_bool(a) or is_bool(b):
        return is_bool(a) and is_bool(b) and a == b
    if is_num(a) and is_num(b):
        return a == b
    if type(a) is list and type(b) is list:
        return len(a) == len(b) and all(json_eq(x, y) for x, y in zip(a, b))
    if type(a) is dict and type(b) is dict:
        return set(a) == set(b) and all(json_eq(a[k], b[k]) for k in a)
    if type(a) is not type(b):
        return False
    return a == b


def py_eq(a, b):
    return a == b


def same(a, b):
    """Structural identity of values (contract `is`): same type and same structure."""
    if is_np(a) or is_np(b):
        return is_np(a) and is_np(b)
    if type(a) is not type(b):
        return False
    if isinstance(a, (list, tuple)):
        return len(a) == len(b) and all(same(x, y) for x, y in zip(a, b))
    if isinstance(a, dict):
        return list(a) == list(b) and all(same(a[k], b[k]) for k in a)
    if isinstance(a, float):
        return a == b or (a != a and b != b)
    if isinstance(a, (int, str, bool)) or a is None:
        return a == b
    if a is b:
        return True
    from statham.schema.elements import Object
    if isinstance(a, Object) and hasattr(a, "_dict") and hasattr(b, "_dict"):
        # built model instances are values, like the lists and dicts next to them: two builds of the same data are "the same"
        return same(a._dict, b._dict)
    return False


def member_json(xs, x):
    return any(json_eq(y, x) for y in xs)


def member_py(xs, x):
    return any(y == x for y in xs)


def has_dup_json(xs):
    return any(json_eq(xs[a], xs[b]) for a in range(len(xs)) for b in range(a + 1, len(xs)))


def has_dup_py(xs):
    return any(xs[a] == xs[b] for a in range(len(xs)) for b in range(a + 1, len(xs)))


def all_present(req, v):
    return all(r in v for r in req)


def re_search(p, s):
    return re.search(p, s) is not None


def attr_absent(o, name):
    try:
        getattr(o, name)
    except AttributeError:
        return True
    return False


def type_is(x, c):
    return type(x) is c


def eff_required(el):
    ex = getattr(el, "required", None)
    pr = getattr(el, "properties", None)
    return list(ex or []) + list(pr.required if pr else [])


# ---- call-by-contract made concrete
def _is_instance_element(e):
    from statham.schema.elements import Element
    return isinstance(e, Element) and not isinstance(e, type)


def sem(e, v):
    """Executable twin of the denotation.  For element *instances* and a passed value it follows SEM-DEF -- every validator of
    the element accepts and construct succeeds -- evaluated through e.validators / validator calls / e.construct and *not*
    through Element.__call__, so that a contract about Element.__call__ is checked against something other than itself."""
    from statham.schema.exceptions import ValidationError
    from statham.schema.constants import NotPassed
    with warnings.catch_warnings():
        warnings.simplefilter("ignore")
        if _is_instance_element(e) and not isinstance(v, NotPassed):
            try:
                return accepts_all(list(e.validators), v) and csem(e, v)
            except (ValidationError, TypeError):
                return False
        try:
            e(v)
        except (ValidationError, TypeError):
            return False
    return True


def build(e, v):
    from statham.schema.constants import NotPassed
    with warnings.catch_warnings():
        warnings.simplefilter("ignore")
        if _is_instance_element(e) and not isinstance(v, NotPassed):
            return cbuild(e, v)
        return e(v)


def props_accepts(props, key):
    return key in props


def call1(f, x):
    return f(x)


def format_reg_wf():
    from statham.schema.validation.format import format_checker
    return dict_wf(format_checker._callable_register) and isinstance(format_checker.__name__, str)


def format_ok(name, value):
    from statham.schema.validation.format import format_checker
    reg = format_checker._callable_register
    return bool(reg[name](value)) if name in reg else True


def forall_keys_unchanged(a, b, k):
    return all(b.get(q, None) is a.get(q, None) for q in set(a) | set(b) if q != k)


def item_schema(items_obj, j):
    it = items_obj.items
    if isinstance(it, list):
        return it[j] if j < len(it) else items_obj.additional
    return it


def outcome_of(e, v):
    from statham.schema.elements.composition import _attempt_schema
    from statham.schema.elements.base import UNBOUND_PROPERTY
    return _attempt_schema(e, v, UNBOUND_PROPERTY)


def d6_multiple(v, m):
    from . import draft6
    return draft6.multiple_of(v, m)


def vrejects(validator, v):
    from statham.schema.exceptions import ValidationError
    from statham.schema.elements.base import UNBOUND_PROPERTY
    try:
        validator(v, UNBOUND_PROPERTY)
    except ValidationError:
        return True
    return False


_VALIDATORS_OF = {}


def validators_of(e):
    """The list `e.validators` denotes: one list per element object (kept with the element so ids are not reused)."""
    k = id(e)
    if k not in _VALIDATORS_OF or _VALIDATORS_OF[k][0] is not e:
        _VALIDATORS_OF[k] = (e, list(e.validators))
        if len(_VALIDATORS_OF) > 20000:
            _VALIDATORS_OF.clear()
            _VALIDATORS_OF[k] = (e, list(e.validators))
    return _VALIDATORS_OF[k][1]


def accepts_all(vs, v):
    return not any(vrejects(x, v) for x in vs)


def csem(e, v):
    from statham.schema.exceptions import ValidationError
    from statham.schema.elements.base import UNBOUND_PROPERTY
    try:
        e.construct(v, UNBOUND_PROPERTY)
    except (ValidationError, TypeError):
        return False
    return True


def cbuild(e, v):
    from statham.schema.elements.base import UNBOUND_PROPERTY
    return e.construct(v, UNBOUND_PROPERTY)


def obj_dict(x):
    return dict(x)


def dflt(e):
    from statham.schema.constants import NotPassed
    import warnings
    with warnings.catch_warnings():
        warnings.simplefilter("ignore")
        return e(NotPassed()) if not isinstance(e, type) else e()


def ann(e):
    return e.annotation


def item_anns(e):
    return e.item_annotations


def lit_of(x):
    from statham.schema.parser import _parse_literal
    return _parse_literal(x)


def prop_for(props, key):
    return props[key]


DOCUMENTED_UNSUPPORTED = {"$defs", "if", "then", "else", "unevaluatedItems", "unevaluatedProperties"}


def has_unsupported(schema):
    return isinstance(schema, dict) and bool(set(schema) & DOCUMENTED_UNSUPPORTED)


def member_is(xs, x):
    return any(y is x for y in xs)


def seen_has(seen, x):
    return bool(seen) and id(x) in seen


def rbd(x):
    from statham.schema.validation import base
    if x is True:
        return base._TRUE
    if x is False:
        return base._FALSE
    if type(x) is list:
        return [rbd(i) for i in x]
    if type(x) is dict:
        return {k: rbd(v) for k, v in x.items()}
    return x


def namespace():
    import statham.schema.elements as E
    import statham.schema.validation as Vv
    from statham.schema import exceptions, property as prop, constants
    from statham.schema.elements import properties as P, items as I, meta
    from statham.schema import helpers, parser
    from statham.serializers import orderer
    ns = {k: v for k, v in globals().items() if callable(v) and not k.startswith("_")}
    for mod in (E, Vv, exceptions, prop, constants, P, I, meta, helpers, parser, orderer):
        for k, v in vars(mod).items():
            if isinstance(v, type):
                ns.setdefault(k, v)
    ns["NP"] = constants.NotPassed()
    ns["NoneType"] = type(None)
    return ns


_ROOTS = []      # set by the monitor before a contract clause is evaluated: the arguments of the call under check


def _reachable(roots, limit=5000):
    from statham.schema.elements import Element
    from statham.schema.property import _Property
    seen, out, todo = set(), [], list(roots)
    while todo and len(out) < limit:
        x = todo.pop()
        if id(x) in seen or x is None or isinstance(x, (bool, int, float, str)):
            continue
        seen.add(id(x))
        if isinstance(x, (Element, _Property)):
            out.append(x)
            d = vars(x) if not isinstance(x, type) else {k: v for k, v in vars(x).items() if not k.startswith("__")}
            todo.extend(d.values())
            if isinstance(x, type):
                todo.append(getattr(x, "_properties", None))
        elif isinstance(x, dict):
            todo.extend(x.values())
        elif isinstance(x, (list, tuple, set, frozenset)):
            todo.extend(x)
    return out


def forall_v(pred):
    """Twin of the universal quantifier over values: a few plain values plus every element / property object reachable from the
    arguments of the call under check (what a heap invariant in a requires clause speaks about)."""
    for x in [None, True, 0, 1.5, "s", [], {}, _np()()] + _reachable(_ROOTS):
        try:
            if not pred(x):
                return False
        except Exception:
            return False
    return True


def members_subset(a, b):
    return all(any(x is y for y in b) for x in a)


def prefix(xs, k):
    return list(xs)[:k]


def all_members(xs, pred):
    return all(pred(x) for x in xs)


def some_member(xs, pred):
    return any(pred(x) for x in xs)
