; lemma IS-MEM / ismem_nth (spec/lemmas/ismem_nth.smt2, discharged each run) as a quantified axiom: the i-th member of a sequence is
; a member of it.  Included only for contracts that list the lemma instance "IS-MEM-NTH".
(assert (forall ((s (Seq V)) (i Int)) (! (=> (and (<= 0 i) (< i (seq.len s))) (ismem s (seq.nth s i))) :pattern ((seq.nth s i)))))
