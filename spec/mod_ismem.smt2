; (identity-membership vocabulary now lives at the top of spec/speclib.smt2)
