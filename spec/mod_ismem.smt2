; Identity membership of a value in a sequence: ismem(s, x) stands for (seq.contains s (seq.unit x)).
; It is kept uninterpreted so that proofs about it are E-matching over the facts below and the instance facts the executor emits
; where it builds a list (concatenation, append, prefix, member at an index); each fact schema is a theorem of the
; seq.contains reading, re-proved on every run by lemma IS-MEM (spec/lemmas/ismem_*.smt2).
(declare-fun ismem ((Seq V) V) Bool)
(assert (forall ((x V)) (! (not (ismem (as seq.empty (Seq V)) x)) :pattern ((ismem (as seq.empty (Seq V)) x)))))
(assert (forall ((c V) (x V)) (! (= (ismem (seq.unit c) x) (= x c)) :pattern ((ismem (seq.unit c) x)))))
