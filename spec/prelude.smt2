(set-logic ALL)
; PyVC prelude: the universal Python value sort and the total primitive
; operations of the Python subset.  Every generated VC starts with this text
; followed by the per-run class table (see pyvc/smt.py: class_table_smt).
;
; Conventions
;  * a finite float is its exact rational value (v_float Real); non-finite
;    floats are not values of this sort (they are not JSON values);
;  * dict = association sequence of (v_pair key value), distinct string keys,
;    insertion order;
;  * *_exc functions say when CPython raises; where CPython's behaviour is
;    outside the modelled domain the function is left uninterpreted
;    (nothing can be proved from it).
(declare-datatypes ((V 0)) ((
  (v_none) (v_np) (v_absent)
  (v_bool (bval Bool)) (v_int (ival Int)) (v_float (rval Real)) (v_str (sval String))
  (v_list (lval (Seq V))) (v_tuple (tval (Seq V)))
  (v_dict (ditems (Seq V))) (v_pair (pkey String) (pval V))
  (v_set (sitems (Seq V)))
  (v_sent (sent Int)) (v_obj (oid Int)) (v_cls (cid Int)))))

; ---- kinds
(define-fun k_none ((x V)) Bool ((_ is v_none) x))
(define-fun k_np ((x V)) Bool ((_ is v_np) x))
(define-fun k_bool ((x V)) Bool ((_ is v_bool) x))
(define-fun k_int ((x V)) Bool ((_ is v_int) x))
(define-fun k_float ((x V)) Bool ((_ is v_float) x))
(define-fun k_str ((x V)) Bool ((_ is v_str) x))
(define-fun k_list ((x V)) Bool ((_ is v_list) x))
(define-fun k_tuple ((x V)) Bool ((_ is v_tuple) x))
(define-fun k_dict ((x V)) Bool ((_ is v_dict) x))
(define-fun k_set ((x V)) Bool ((_ is v_set) x))
(define-fun k_obj ((x V)) Bool ((_ is v_obj) x))
(define-fun k_cls ((x V)) Bool ((_ is v_cls) x))
(define-fun is_pynum ((x V)) Bool (or ((_ is v_int) x) ((_ is v_float) x) ((_ is v_bool) x)))
(define-fun is_num ((x V)) Bool (or ((_ is v_int) x) ((_ is v_float) x)))
(define-fun num ((x V)) Real (ite ((_ is v_bool) x) (ite (bval x) 1.0 0.0)
                             (ite ((_ is v_int) x) (to_real (ival x))
                             (ite ((_ is v_float) x) (rval x) 0.0))))
; the underlying sequence of any sequence-like value
(define-fun seqof ((x V)) (Seq V)
  (ite ((_ is v_list) x) (lval x) (ite ((_ is v_tuple) x) (tval x)
  (ite ((_ is v_set) x) (sitems x) (ite ((_ is v_dict) x) (ditems x) (as seq.empty (Seq V)))))))

; ---- class ids of builtin types (repo classes are numbered from 100 by the class table)
(define-fun T_NONE () Int 0) (define-fun T_BOOL () Int 1) (define-fun T_INT () Int 2)
(define-fun T_FLOAT () Int 3) (define-fun T_STR () Int 4) (define-fun T_LIST () Int 5)
(define-fun T_TUPLE () Int 6) (define-fun T_DICT () Int 7) (define-fun T_SET () Int 8)
(define-fun T_NP () Int 9) (define-fun T_OBJECT () Int 10) (define-fun T_TYPE () Int 11)
(declare-fun class_of (Int) Int)          ; class id of object id
(assert (forall ((i Int)) (! (>= (class_of i) 100) :pattern ((class_of i)))))   ; objects are never of a value type
(declare-fun obj_dictlen (V) Int)         ; len() of an object of a dict subclass
(declare-fun obj_dict (V) V)              ; the mapping held by an object of a dict subclass (_PropertyDict, PatternDict, ...)
; the class table (subclass, meta_of, obj_truthy from the live classes) is inserted here
;;CLASS_TABLE;;

; ---- dictionaries
(define-fun-rec dget ((it (Seq V)) (k String) (j Int)) V
  (ite (or (< j 0) (>= j (seq.len it))) v_absent
  (ite (= (pkey (seq.nth it j)) k) (pval (seq.nth it j)) (dget it k (+ j 1)))))
(define-fun dhas ((d V) (k String)) Bool (not (= (dget (ditems d) k 0) v_absent)))
(define-fun dval ((d V) (k String)) V (dget (ditems d) k 0))
; well-formed dict: all entries pairs, keys distinct, no absent values
(define-fun-rec keys_distinct_from ((it (Seq V)) (k String) (j Int)) Bool
  (ite (or (< j 0) (>= j (seq.len it))) true
       (and (not (= (pkey (seq.nth it j)) k)) (keys_distinct_from it k (+ j 1)))))
(define-fun-rec dict_wf_from ((it (Seq V)) (j Int)) Bool
  (ite (or (< j 0) (>= j (seq.len it))) true
       (and ((_ is v_pair) (seq.nth it j))
            (not (= (pval (seq.nth it j)) v_absent))
            (keys_distinct_from it (pkey (seq.nth it j)) (+ j 1))
            (dict_wf_from it (+ j 1)))))
(define-fun dict_wf ((d V)) Bool (and ((_ is v_dict) d) (dict_wf_from (ditems d) 0)))

(assert (forall ((x V)) (! (= (obj_dictlen x) (seq.len (ditems (obj_dict x)))) :pattern ((obj_dictlen x)))))
; ---- equality: CPython == and Draft-6 instance equality
(declare-fun obj_eq (V V) Bool)           ; __eq__ of two (non-identical) objects; see axioms per run
(define-funs-rec ((py_eq ((a V) (b V)) Bool)
                  (py_eq_seq ((a (Seq V)) (b (Seq V)) (j Int)) Bool)
                  (py_eq_map ((a (Seq V)) (b (Seq V)) (j Int)) Bool))
 ((ite (and (is_pynum a) (is_pynum b)) (= (num a) (num b))
  (ite (and ((_ is v_list) a) ((_ is v_list) b))
       (and (= (seq.len (lval a)) (seq.len (lval b))) (py_eq_seq (lval a) (lval b) 0))
  (ite (and ((_ is v_tuple) a) ((_ is v_tuple) b))
       (and (= (seq.len (tval a)) (seq.len (tval b))) (py_eq_seq (tval a) (tval b) 0))
  (ite (and ((_ is v_dict) a) ((_ is v_dict) b))
       (and (= (seq.len (ditems a)) (seq.len (ditems b))) (py_eq_map (ditems a) (ditems b) 0))
  (ite (and ((_ is v_obj) a) ((_ is v_obj) b)) (or (= a b) (obj_eq a b))
  (= a b))))))
  (ite (or (< j 0) (>= j (seq.len a))) true
       (and (py_eq (seq.nth a j) (seq.nth b j)) (py_eq_seq a b (+ j 1))))
  (ite (or (< j 0) (>= j (seq.len a))) true
       (and (not (= (dget b (pkey (seq.nth a j)) 0) v_absent))
            (py_eq (pval (seq.nth a j)) (dget b (pkey (seq.nth a j)) 0))
            (py_eq_map a b (+ j 1))))))
(define-funs-rec ((json_eq ((a V) (b V)) Bool)
                  (json_eq_seq ((a (Seq V)) (b (Seq V)) (j Int)) Bool)
                  (json_eq_map ((a (Seq V)) (b (Seq V)) (j Int)) Bool))
 ((ite (and (is_num a) (is_num b)) (= (num a) (num b))
  (ite (and ((_ is v_list) a) ((_ is v_list) b))
       (and (= (seq.len (lval a)) (seq.len (lval b))) (json_eq_seq (lval a) (lval b) 0))
  (ite (and ((_ is v_dict) a) ((_ is v_dict) b))
       (and (= (seq.len (ditems a)) (seq.len (ditems b))) (json_eq_map (ditems a) (ditems b) 0))
  (= a b))))
  (ite (or (< j 0) (>= j (seq.len a))) true
       (and (json_eq (seq.nth a j) (seq.nth b j)) (json_eq_seq a b (+ j 1))))
  (ite (or (< j 0) (>= j (seq.len a))) true
       (and (not (= (dget b (pkey (seq.nth a j)) 0) v_absent))
            (json_eq (pval (seq.nth a j)) (dget b (pkey (seq.nth a j)) 0))
            (json_eq_map a b (+ j 1))))))

; is_json: a JSON value (finite tree of null/bool/int/float/str/list/dict with distinct string keys)
(define-funs-rec ((is_json ((a V)) Bool) (is_json_seq ((a (Seq V)) (j Int)) Bool)
                  (is_json_vals ((a (Seq V)) (j Int)) Bool))
 ((or (k_none a) (k_bool a) (k_int a) (k_float a) (k_str a)
      (and ((_ is v_list) a) (is_json_seq (lval a) 0))
      (and (dict_wf a) (is_json_vals (ditems a) 0)))
  (ite (or (< j 0) (>= j (seq.len a))) true (and (is_json (seq.nth a j)) (is_json_seq a (+ j 1))))
  (ite (or (< j 0) (>= j (seq.len a))) true
       (and (is_json (pval (seq.nth a j))) (is_json_vals a (+ j 1))))))

; ---- membership (x in container) by ==
(define-fun-rec seq_has_pyeq ((s (Seq V)) (x V) (j Int)) Bool
  (ite (or (< j 0) (>= j (seq.len s))) false
       (or (py_eq (seq.nth s j) x) (seq_has_pyeq s x (+ j 1)))))
(define-fun-rec seq_has_jsoneq ((s (Seq V)) (x V) (j Int)) Bool
  (ite (or (< j 0) (>= j (seq.len s))) false
       (or (json_eq (seq.nth s j) x) (seq_has_jsoneq s x (+ j 1)))))
(declare-fun contains_u (V V) Bool)
(define-fun py_contains ((c V) (x V)) Bool
  (ite (or ((_ is v_list) c) ((_ is v_tuple) c) ((_ is v_set) c)) (seq_has_pyeq (seqof c) x 0)
  (ite (and ((_ is v_dict) c) ((_ is v_str) x)) (dhas c (sval x))
  (ite ((_ is v_dict) c) false
  (ite (and ((_ is v_str) c) ((_ is v_str) x)) (str.contains (sval c) (sval x))
  (contains_u c x))))))
; `in` raises TypeError on a non-container right operand (objects with __contains__ are handled by contract)
(define-fun contains_exc ((c V) (x V)) Bool
  (or (k_none c) (k_np c) (k_bool c) (k_int c) (k_float c) (k_cls c)
      (and (k_str c) (not (k_str x)))))

; ---- truthiness
(define-fun truthy ((x V)) Bool
  (ite ((_ is v_bool) x) (bval x)
  (ite ((_ is v_int) x) (not (= (ival x) 0))
  (ite ((_ is v_float) x) (not (= (rval x) 0.0))
  (ite ((_ is v_str) x) (> (str.len (sval x)) 0)
  (ite (or ((_ is v_list) x) ((_ is v_tuple) x) ((_ is v_dict) x) ((_ is v_set) x)) (> (seq.len (seqof x)) 0)
  (ite (or ((_ is v_none) x) ((_ is v_np) x) ((_ is v_absent) x)) false
  (ite ((_ is v_obj) x) (obj_truthy x)
  true))))))))

; ---- len
(define-fun py_len ((x V)) Int
  (ite ((_ is v_str) x) (str.len (sval x)) (seq.len (seqof x))))
(define-fun len_exc ((x V)) Bool
  (not (or ((_ is v_str) x) ((_ is v_list) x) ((_ is v_tuple) x) ((_ is v_dict) x) ((_ is v_set) x))))

; ---- ordering comparisons
(declare-fun cmp_exc_u (V V) Bool)
(declare-fun lt_u (V V) Bool)
(define-fun cmp_exc ((a V) (b V)) Bool
  (ite (and (is_pynum a) (is_pynum b)) false
  (ite (and (k_str a) (k_str b)) false
  (ite (or (k_none a) (k_none b) (k_dict a) (k_dict b) (k_np a) (k_np b)
           (and (is_pynum a) (or (k_str b) (k_list b) (k_tuple b)))
           (and (is_pynum b) (or (k_str a) (k_list a) (k_tuple a)))
           (and (k_str a) (or (k_list b) (k_tuple b)))
           (and (k_str b) (or (k_list a) (k_tuple a)))) true
  (cmp_exc_u a b)))))
(define-fun py_lt ((a V) (b V)) Bool
  (ite (and (is_pynum a) (is_pynum b)) (< (num a) (num b))
  (ite (and (k_str a) (k_str b)) (str.< (sval a) (sval b)) (lt_u a b))))
(define-fun py_le ((a V) (b V)) Bool
  (ite (and (is_pynum a) (is_pynum b)) (<= (num a) (num b))
  (ite (and (k_str a) (k_str b)) (str.<= (sval a) (sval b)) (not (lt_u b a)))))

; ---- subscription
(define-fun norm_index ((n Int) (i Int)) Int (ite (< i 0) (+ i n) i))
(define-fun py_getitem ((c V) (k V)) V
  (ite (and (or (k_list c) (k_tuple c)) (k_int k))
       (seq.nth (seqof c) (norm_index (seq.len (seqof c)) (ival k)))
  (ite (and (or (k_list c) (k_tuple c)) (k_bool k))
       (seq.nth (seqof c) (ite (bval k) 1 0))
  (ite (and (k_dict c) (k_str k)) (dval c (sval k))
  v_absent))))
; exception code of c[k]: 0 none, 1 KeyError, 2 IndexError, 3 TypeError
(declare-fun obj_getitem_exc (V V) Int)   ; objects: depends on the class's __getitem__ (known only when the class is)
(define-fun getitem_exc ((c V) (k V)) Int
  (ite (and (or (k_list c) (k_tuple c)) (or (k_int k) (k_bool k)))
       (let ((i (norm_index (seq.len (seqof c)) (ite (k_int k) (ival k) (ite (bval k) 1 0)))))
         (ite (and (<= 0 i) (< i (seq.len (seqof c)))) 0 2))
  (ite (or (k_list c) (k_tuple c)) 3
  (ite (and (k_dict c) (k_str k)) (ite (dhas c (sval k)) 0 1)
  (ite (k_dict c) 1
  (ite (k_obj c) (ite (not_subscriptable (class_of (oid c))) 3 (obj_getitem_exc c k))
  3))))))

; ---- str()/repr() images: uninterpreted
(declare-fun py_str_other (V) String)
(define-fun py_str ((x V)) String (ite ((_ is v_str) x) (sval x) (py_str_other x)))   ; str(s) is s for a str
(declare-fun py_repr (V) String)

; ---- attributes of pre-existing objects are uninterpreted functions attr_<name> (V) V, declared per VC.
; ---- regular expressions: re.search(pattern, string) is truthy
(declare-fun re_search (String String) Bool)

; ---- isinstance
(define-fun type_of ((x V)) Int
  (ite (k_none x) T_NONE (ite (k_bool x) T_BOOL (ite (k_int x) T_INT (ite (k_float x) T_FLOAT
  (ite (k_str x) T_STR (ite (k_list x) T_LIST (ite (k_tuple x) T_TUPLE (ite (k_dict x) T_DICT
  (ite (k_set x) T_SET (ite (k_np x) T_NP (ite (k_obj x) (class_of (oid x))
  (ite (k_cls x) (meta_of (cid x)) T_OBJECT)))))))))))))
(define-fun isinst1 ((x V) (c Int)) Bool
  (or (= (type_of x) c) (subclass (type_of x) c)))
(define-fun-rec isinst_any ((x V) (ts (Seq V)) (j Int)) Bool
  (ite (or (< j 0) (>= j (seq.len ts))) false
       (or (and (k_cls (seq.nth ts j)) (isinst1 x (cid (seq.nth ts j)))) (isinst_any x ts (+ j 1)))))
(define-fun py_isinstance ((x V) (c V)) Bool
  (ite (k_cls c) (isinst1 x (cid c)) (isinst_any x (seqof c) 0)))

; ---- sets: set(xs) is introduced by the executor as a fresh sequence with the library axioms
;      len(set xs) <= len xs,  len(set xs) = len xs  <=>  not has_dup_py(xs),  same members up to ==
; unhashable element (list/dict/set) makes set() raise TypeError
(define-fun-rec has_unhashable ((s (Seq V)) (j Int)) Bool
  (ite (or (< j 0) (>= j (seq.len s))) false
       (or (k_list (seq.nth s j)) (k_dict (seq.nth s j)) (k_set (seq.nth s j)) (has_unhashable s (+ j 1)))))
; some element of a (from j) is not == any element of b
(define-fun-rec some_missing ((a (Seq V)) (b V) (j Int)) Bool
  (ite (or (< j 0) (>= j (seq.len a))) false
       (or (not (py_contains b (seq.nth a j))) (some_missing a b (+ j 1)))))
; pairwise distinctness
(define-fun-rec has_dup_py ((s (Seq V)) (j Int)) Bool       ; exists a<b, a>=j... as: element j has a later == twin, or recurse
  (ite (or (< j 0) (>= j (seq.len s))) false
       (or (seq_has_pyeq s (seq.nth s j) (+ j 1)) (has_dup_py s (+ j 1)))))
(define-fun-rec has_dup_json ((s (Seq V)) (j Int)) Bool
  (ite (or (< j 0) (>= j (seq.len s))) false
       (or (seq_has_jsoneq s (seq.nth s j) (+ j 1)) (has_dup_json s (+ j 1)))))
