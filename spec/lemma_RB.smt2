; Lemma RB (proved by induction: spec/lemmas/rb_*.smt2): on JSON values, == after aliasing is Draft-6 equality
(assert (forall ((a V) (b V)) (! (=> (and (is_json a) (is_json b)) (= (py_eq (rbd a) (rbd b)) (json_eq a b))) :pattern ((py_eq (rbd a) (rbd b))))))
