"""Carriers for specification-level lemmas.

A lemma over contracts is stated as the contract of one of these empty functions: its `requires` is the conjunction of the
hypotheses -- clauses taken verbatim (generated from the same strings) from the postconditions of verified contracts, plus
definitions of spec vocabulary -- and its `returns` is the conclusion.  There is no code here to verify: the verification
condition is exactly  hypotheses => conclusion, discharged by the same solvers.  Evidence labels these entries `lemma`.
"""


def vals_fwd(self, vs, x):
    return None


def vals_bwd(self, vs, x, m):
    return None


def vals_all(self, vs, x):
    return None
