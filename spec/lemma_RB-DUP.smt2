; Lemma RB-DUP (spec/lemmas/rb_dup_step.smt2): duplicates by == in an aliased list are Draft-6 duplicates, from any start index
(assert (forall ((s V) (j Int)) (! (=> (and (is_json s) (k_list s) (<= 0 j)) (= (has_dup_py (lval (rbd s)) j) (has_dup_json (lval s) j))) :pattern ((has_dup_py (lval (rbd s)) j)))))
