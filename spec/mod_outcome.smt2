; _attempt_schema(e, v, p) returns outcome_of(e, v): an Outcome whose error is None exactly when e accepts v
(declare-fun outcome_of (V V) V)
(declare-fun attr_target (V) V)
(declare-fun attr_result (V) V)
(declare-fun attr_error (V) V)
(assert (forall ((e V) (v V)) (! (and (k_obj (outcome_of e v)) (= (attr_target (outcome_of e v)) e)
   (ite (sem e v) (and (= (attr_error (outcome_of e v)) v_none) (= (attr_result (outcome_of e v)) (build e v)))
                  (and (k_obj (attr_error (outcome_of e v))) (obj_truthy (attr_error (outcome_of e v))) (= (attr_result (outcome_of e v)) v_none))))
   :pattern ((outcome_of e v)))))
