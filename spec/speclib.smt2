; ---- specification vocabulary shared by contracts (see spec/pyspec.py for the executable twins)
; Identity membership of a value in a sequence: ismem(s, x) stands for (seq.contains s (seq.unit x)).
; It is kept uninterpreted so that proofs about it are E-matching over the facts below and the instance facts the executor emits
; where it builds a list (concatenation, append, prefix, member at an index); each fact schema is a theorem of the
; seq.contains reading, re-proved on every run by lemma IS-MEM (spec/lemmas/ismem_*.smt2).
(declare-fun lseq (V) (Seq V))           ; alias of the macro seqof, usable in patterns
(assert (forall ((s (Seq V))) (! (= (lseq (v_list s)) s) :pattern ((lseq (v_list s))))))
(assert (forall ((s (Seq V))) (! (= (lseq (v_tuple s)) s) :pattern ((lseq (v_tuple s))))))
(declare-fun ismem ((Seq V) V) Bool)
(assert (forall ((x V)) (! (not (ismem (as seq.empty (Seq V)) x)) :pattern ((ismem (as seq.empty (Seq V)) x)))))
(assert (forall ((c V) (x V)) (! (= (ismem (seq.unit c) x) (= x c)) :pattern ((ismem (seq.unit c) x)))))
; denotation of an element and the model it builds: uninterpreted at the leaves of the call graph,
; characterised by the contracts of Element.__call__ and friends
(declare-fun sem (V V) Bool)
(declare-fun build (V V) V)
; Draft-6 6.17 required: every listed name is a key of the instance  (recursion over the list)
(define-fun all_present ((req V) (v V)) Bool (not (some_missing (seqof req) v 0)))
; Properties.__contains__: the key is covered by a declared property, a pattern, or a non-Nothing additional
(declare-fun props_accepts (V String) Bool)
; a built model is a value (never the "absent" marker)
(assert (forall ((e V) (v V)) (! (not (= (build e v) v_absent)) :pattern ((build e v)))))
; Draft-6 6.1 multipleOf under binary64 arithmetic: uninterpreted here (spec/draft6.py multiple_of is its executable twin)
(declare-fun d6_multiple (V V) Bool)
; ---- the validation call chain, one level below `sem`
(declare-fun vrejects (V V) Bool)        ; a validator object rejects a value (its __call__ raises ValidationError)
(declare-fun validators_of (V) V)        ; the list an element's `validators` property returns
(declare-fun csem (V V) Bool)            ; the element's `construct` succeeds on the value
(declare-fun cbuild (V V) V)             ; ... and this is what it returns
(define-fun accepts_all ((vs V) (v V)) Bool
  (forall ((m V)) (! (=> (ismem (lseq vs) m) (not (vrejects m v))) :pattern ((ismem (lseq vs) m)))))
; SEM-DEF: for element *instances* (everything whose call is Element.__call__): a passed value is accepted iff every
; validator accepts it and construct succeeds; the result is construct's
(assert (forall ((e V) (v V)) (! (=> (not (k_np v)) (and (= (sem e v) (and (accepts_all (validators_of e) v) (csem e v)))
                                                           (= (build e v) (cbuild e v)))) :pattern ((sem e v)))))
(assert (forall ((e V) (v V)) (! (=> (not (k_np v)) (= (build e v) (cbuild e v))) :pattern ((build e v)))))
; what calling an element with no value yields (its converted default, the raw default, or NotPassed): C05's clause,
; characterised by the contract of Element.__call__ / Object.__new__
(declare-fun dflt (V) V)
(declare-fun lit_of (V) V)        ; _parse_literal(x): the literal with annotation keys stripped (a function of the value)
(declare-fun item_anns (V) V)     ; Array.item_annotations of an array element (function of the element between writes)
(declare-fun ann (V) String)      ; the annotation text of an element (Element.annotation under dynamic dispatch)
; Properties.__getitem__(k): the property governing key k
(declare-fun prop_for (V String) V)
