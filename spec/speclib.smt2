; ---- specification vocabulary shared by contracts (see spec/pyspec.py for the executable twins)
; denotation of an element and the model it builds: uninterpreted at the leaves of the call graph,
; characterised by the contracts of Element.__call__ and friends
(declare-fun sem (V V) Bool)
(declare-fun build (V V) V)
; Draft-6 6.17 required: every listed name is a key of the instance  (recursion over the list)
(define-fun all_present ((req V) (v V)) Bool (not (some_missing (seqof req) v 0)))
; Properties.__contains__: the key is covered by a declared property, a pattern, or a non-Nothing additional
(declare-fun props_accepts (V String) Bool)
; a built model is a value (never the "absent" marker)
(assert (forall ((e V) (v V)) (! (not (= (build e v) v_absent)) :pattern ((build e v)))))
