; LEMMA JSON-INTRO (objects): if the value of every entry from index j on is a JSON value, is_json_vals(s, j).  Induction step.
; USES:
(declare-const s (Seq V)) (declare-const j Int)
(assert (<= 0 j))
(assert (=> (forall ((i Int)) (=> (and (<= (+ j 1) i) (< i (seq.len s))) (is_json (pval (seq.nth s i))))) (is_json_vals s (+ j 1))))   ; IH
(assert (forall ((i Int)) (=> (and (<= j i) (< i (seq.len s))) (is_json (pval (seq.nth s i))))))
(assert (not (is_json_vals s j)))
(check-sat)
