; LEMMA RB, a is an array: from the sequence lemma at index 0 (and the trivial statement at len)
; USES: mod_rbd
(declare-const a V)(declare-const b V)
(assert (and (is_json a) (is_json b) (k_list a)))
(assert (=> (and (k_list b) (= (seq.len (lval a)) (seq.len (lval b))))
            (= (py_eq_seq (lval (rbd a)) (lval (rbd b)) 0) (json_eq_seq (lval a) (lval b) 0))))
(assert (not (= (py_eq (rbd a) (rbd b)) (json_eq a b))))
(check-sat)
