; side fact used by rb_map_step: rbd(x) = absent only for x = absent
; USES: mod_rbd
(declare-const x V)
(assert (not (= x v_absent)))
(assert (= (rbd x) v_absent))
(check-sat)
