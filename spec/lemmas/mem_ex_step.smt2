; seq_has_pyeq(s, x, j)  =>  exists q >= j. py_eq(s[q], x)     (induction step on j; statement at j+1 assumed)
; USES:
(declare-const s (Seq V))(declare-const x V)(declare-const j Int)
(assert (and (<= 0 j) (< j (seq.len s))))
(assert (=> (seq_has_pyeq s x (+ j 1)) (exists ((q Int)) (and (<= (+ j 1) q) (< q (seq.len s)) (py_eq (seq.nth s q) x)))))
(assert (seq_has_pyeq s x j))
(assert (not (exists ((q Int)) (and (<= j q) (< q (seq.len s)) (py_eq (seq.nth s q) x)))))
(check-sat)
