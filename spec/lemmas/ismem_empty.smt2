; ismem(empty, x) is false
; USES:
(declare-const a (Seq V))(declare-const b (Seq V))(declare-const s (Seq V))(declare-const x V)(declare-const c V)(declare-const i Int)(declare-const k Int)
(assert (seq.contains (as seq.empty (Seq V)) (seq.unit x)))
(check-sat)
