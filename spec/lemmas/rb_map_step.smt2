; LEMMA RB, objects: py_eq_map(A',B',j) = json_eq_map(A,B,j) by downward induction on j, using DGET at 0 and the structural IH
; USES: mod_rbd mod_json_elem
(declare-const a V)(declare-const b V)(declare-const j Int)
(assert (and (is_json a) (is_json b) (k_dict a) (k_dict b)))
(assert (and (<= 0 j) (< j (seq.len (ditems a)))))
(define-fun key () String (pkey (seq.nth (ditems a) j)))
; DGET (proved separately) for this key
(assert (= (dget (ditems (rbd b)) key 0) (ite (= (dget (ditems b) key 0) v_absent) v_absent (rbd (dget (ditems b) key 0)))))
; structural IH for the two members under this key (when present in b)
(assert (=> (not (= (dget (ditems b) key 0) v_absent))
            (= (py_eq (rbd (pval (seq.nth (ditems a) j))) (rbd (dget (ditems b) key 0))) (json_eq (pval (seq.nth (ditems a) j)) (dget (ditems b) key 0)))))
; rbd never produces the absent marker from a present value
(assert (=> (not (= (dget (ditems b) key 0) v_absent)) (not (= (rbd (dget (ditems b) key 0)) v_absent))))
(assert (= (py_eq_map (ditems (rbd a)) (ditems (rbd b)) (+ j 1)) (json_eq_map (ditems a) (ditems b) (+ j 1))))   ; index IH
(assert (not (= (py_eq_map (ditems (rbd a)) (ditems (rbd b)) j) (json_eq_map (ditems a) (ditems b) j))))
(check-sat)
