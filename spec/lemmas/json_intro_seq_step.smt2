; LEMMA JSON-INTRO (arrays): if every member from index j on is a JSON value, is_json_seq(s, j).  Induction step on the start
; index j (statement at j+1 assumed; base: j >= len(s) is the definition).
; USES:
(declare-const s (Seq V)) (declare-const j Int)
(assert (<= 0 j))
(assert (=> (forall ((i Int)) (=> (and (<= (+ j 1) i) (< i (seq.len s))) (is_json (seq.nth s i)))) (is_json_seq s (+ j 1))))   ; IH
(assert (forall ((i Int)) (=> (and (<= j i) (< i (seq.len s))) (is_json (seq.nth s i)))))
(assert (not (is_json_seq s j)))
(check-sat)
