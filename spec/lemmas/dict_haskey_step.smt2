; dget(it, k, i) != absent  =>  exists j >= i with pkey(it[j]) = k        (induction step on i; statement at i+1 assumed)
; USES:
(declare-const it (Seq V))(declare-const k String)(declare-const i Int)
(assert (and (<= 0 i) (< i (seq.len it))))
(assert (=> (not (= (dget it k (+ i 1)) v_absent)) (exists ((j Int)) (and (<= (+ i 1) j) (< j (seq.len it)) (= (pkey (seq.nth it j)) k)))))
(assert (not (= (dget it k i) v_absent)))
(assert (not (exists ((j Int)) (and (<= i j) (< j (seq.len it)) (= (pkey (seq.nth it j)) k)))))
(check-sat)
