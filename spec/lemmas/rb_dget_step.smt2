; LEMMA DGET: looking a key up in an aliased object gives the aliased member; induction step on the start index j
; USES: mod_rbd
(declare-const b V)(declare-const k String)(declare-const j Int)
(assert (and (dict_wf b) (<= 0 j) (< j (seq.len (ditems b)))))
(define-fun rel ((x V) (y V)) Bool (= x (ite (= y v_absent) v_absent (rbd y))))
(assert (rel (dget (ditems (rbd b)) k (+ j 1)) (dget (ditems b) k (+ j 1))))   ; IH
(assert (not (rel (dget (ditems (rbd b)) k j) (dget (ditems b) k j))))
(check-sat)
