; CONCAT-ALL (step 2 of 2): if every element of a and every element of b satisfies P (P arbitrary), so does the element of
; a ++ b at any index j0 -- given the position equation proved in concat_nth.smt2 (step 1)
; USES:
(declare-fun P (V) Bool)
(declare-const a (Seq V))(declare-const b (Seq V))(declare-const j0 Int)
(assert (forall ((j Int)) (! (=> (and (<= 0 j) (< j (seq.len a))) (P (seq.nth a j))) :pattern ((seq.nth a j)))))
(assert (forall ((j Int)) (! (=> (and (<= 0 j) (< j (seq.len b))) (P (seq.nth b j))) :pattern ((seq.nth b j)))))
(assert (and (<= 0 j0) (< j0 (seq.len (seq.++ a b)))))
(assert (= (seq.nth (seq.++ a b) j0) (ite (< j0 (seq.len a)) (seq.nth a j0) (seq.nth b (- j0 (seq.len a))))))
(assert (not (P (seq.nth (seq.++ a b) j0))))
(check-sat)
