; j <= q < len and py_eq(s[q], x)  =>  seq_has_pyeq(s, x, j)     (induction step on j downward from q; statement at j+1 assumed)
; USES:
(declare-const s (Seq V))(declare-const x V)(declare-const j Int)(declare-const q Int)
(assert (and (<= 0 j) (<= j q) (< q (seq.len s)) (py_eq (seq.nth s q) x)))
(assert (=> (<= (+ j 1) q) (seq_has_pyeq s x (+ j 1))))
(assert (not (seq_has_pyeq s x j)))
(check-sat)
