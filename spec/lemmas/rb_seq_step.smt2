; LEMMA RB, arrays: py_eq_seq(A',B',j) = json_eq_seq(A,B,j) by downward induction on j; IH for the elements (structural)
; USES: mod_rbd mod_json_elem
(declare-const a V)(declare-const b V)(declare-const j Int)
(assert (and (is_json a) (is_json b) (k_list a) (k_list b) (= (seq.len (lval a)) (seq.len (lval b)))))
(assert (and (<= 0 j) (< j (seq.len (lval a)))))
; structural IH: the lemma holds for the members at index j
(assert (= (py_eq (rbd (seq.nth (lval a) j)) (rbd (seq.nth (lval b) j))) (json_eq (seq.nth (lval a) j) (seq.nth (lval b) j))))
; index IH
(assert (= (py_eq_seq (lval (rbd a)) (lval (rbd b)) (+ j 1)) (json_eq_seq (lval a) (lval b) (+ j 1))))
(assert (not (= (py_eq_seq (lval (rbd a)) (lval (rbd b)) j) (json_eq_seq (lval a) (lval b) j))))
(check-sat)
