; s[:len(s)] == s and s[:0] == []
; USES:
(declare-const a (Seq V))(declare-const b (Seq V))(declare-const s (Seq V))(declare-const x V)(declare-const c V)(declare-const i Int)(declare-const k Int)
(assert (not (and (= (seq.extract s 0 (seq.len s)) s) (= (seq.extract s 0 0) (as seq.empty (Seq V))))))
(check-sat)
