; LEMMA JSON-ELEM (arrays), induction step on the start index j (statement at j+1 assumed)
; USES:
(declare-const s (Seq V)) (declare-const i Int) (declare-const j Int)
(assert (and (<= 0 j) (<= j i) (< i (seq.len s))))
(assert (=> (and (is_json_seq s (+ j 1)) (<= (+ j 1) i) (< i (seq.len s))) (is_json (seq.nth s i))))   ; IH
(assert (is_json_seq s j))
(assert (not (is_json (seq.nth s i))))
(check-sat)
