; CONCAT-ALL (step 1 of 2): (a ++ b)[j0] is a[j0] when j0 < len a, else b[j0 - len a]
; USES:
(declare-const a (Seq V))(declare-const b (Seq V))(declare-const j0 Int)
(assert (and (<= 0 j0) (< j0 (seq.len (seq.++ a b)))))
(assert (not (= (seq.nth (seq.++ a b) j0) (ite (< j0 (seq.len a)) (seq.nth a j0) (seq.nth b (- j0 (seq.len a)))))))
(check-sat)
