; dict_wf_from(it, i) and i <= j < len  =>  dget(it, pkey(it[j]), i) = pval(it[j])     (downward induction on i from j; statement at i+1 assumed)
; USES:
(declare-const it (Seq V))(declare-const i Int)(declare-const j Int)
(assert (and (<= 0 i) (<= i j) (< j (seq.len it))))
(assert (=> (and (dict_wf_from it (+ i 1)) (<= (+ i 1) j)) (= (dget it (pkey (seq.nth it j)) (+ i 1)) (pval (seq.nth it j)))))   ; IH
; the distinctness lemma (dict_distinct_step) for this key
(assert (=> (and (keys_distinct_from it (pkey (seq.nth it i)) (+ i 1)) (<= (+ i 1) j)) (not (= (pkey (seq.nth it j)) (pkey (seq.nth it i))))))
(assert (dict_wf_from it i))
(assert (not (= (dget it (pkey (seq.nth it j)) i) (pval (seq.nth it j)))))
(check-sat)
