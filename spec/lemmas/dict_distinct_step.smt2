; keys_distinct_from(it, k, i) and i <= j < len  =>  pkey(it[j]) != k      (induction step on i; statement at i+1 assumed)
; USES:
(declare-const it (Seq V))(declare-const k String)(declare-const i Int)(declare-const j Int)
(assert (and (<= 0 i) (<= i j) (< j (seq.len it))))
(assert (=> (and (keys_distinct_from it k (+ i 1)) (<= (+ i 1) j)) (not (= (pkey (seq.nth it j)) k))))
(assert (keys_distinct_from it k i))
(assert (= (pkey (seq.nth it j)) k))
(check-sat)
