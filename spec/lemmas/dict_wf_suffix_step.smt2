; dict_wf_from(it, i) => dict_wf_from(it, i+1)  (unfolding)
; USES:
(declare-const it (Seq V))(declare-const i Int)
(assert (and (<= 0 i) (< i (seq.len it)) (dict_wf_from it i)))
(assert (not (dict_wf_from it (+ i 1))))
(check-sat)
