; LEMMA RB-DUP: has_dup_py(lval(rbd s), j) = has_dup_json(lval s, j); induction step on j, using RB-MEM (general start index)
; USES: mod_rbd mod_json_elem lemma_RB lemma_RB-MEM
(declare-const s V)(declare-const j Int)
(assert (and (is_json s) (k_list s) (<= 0 j) (< j (seq.len (lval s)))))
(assert (= (has_dup_py (lval (rbd s)) (+ j 1)) (has_dup_json (lval s) (+ j 1))))   ; IH
(assert (not (= (has_dup_py (lval (rbd s)) j) (has_dup_json (lval s) j))))
(check-sat)
