; LEMMA RB, a is an object: from the map lemma at index 0
; USES: mod_rbd
(declare-const a V)(declare-const b V)
(assert (and (is_json a) (is_json b) (k_dict a)))
(assert (=> (k_dict b) (= (py_eq_map (ditems (rbd a)) (ditems (rbd b)) 0) (json_eq_map (ditems a) (ditems b) 0))))
(assert (not (= (py_eq (rbd a) (rbd b)) (json_eq a b))))
(check-sat)
