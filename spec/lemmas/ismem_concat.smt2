; ismem(a ++ b, x) == ismem(a, x) or ismem(b, x)   (emitted where the executor concatenates / appends)
; USES:
(declare-const a (Seq V))(declare-const b (Seq V))(declare-const s (Seq V))(declare-const x V)(declare-const c V)(declare-const i Int)(declare-const k Int)
(assert (not (= (seq.contains (seq.++ a b) (seq.unit x)) (or (seq.contains a (seq.unit x)) (seq.contains b (seq.unit x))))))
(check-sat)
