; LEMMA RB, base case: neither value is a container
; USES: mod_rbd
(declare-const a V)(declare-const b V)
(assert (is_json a))(assert (is_json b))
(assert (not (or (k_list a) (k_dict a))))
(assert (not (= (py_eq (rbd a) (rbd b)) (json_eq a b))))
(check-sat)
