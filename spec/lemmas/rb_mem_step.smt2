; LEMMA RB-MEM: seq_has_pyeq(lval(rbd s), rbd v, j) = seq_has_jsoneq(lval s, v, j); induction step on j, using lemma RB
; USES: mod_rbd mod_json_elem lemma_RB
(declare-const s V)(declare-const v V)(declare-const j Int)
(assert (and (is_json s) (k_list s) (is_json v) (<= 0 j) (< j (seq.len (lval s)))))
(assert (= (seq_has_pyeq (lval (rbd s)) (rbd v) (+ j 1)) (seq_has_jsoneq (lval s) v (+ j 1))))   ; IH
(assert (not (= (seq_has_pyeq (lval (rbd s)) (rbd v) j) (seq_has_jsoneq (lval s) v j))))
(check-sat)
