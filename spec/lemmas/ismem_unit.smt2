; ismem([c], x) == (x is c)
; USES:
(declare-const a (Seq V))(declare-const b (Seq V))(declare-const s (Seq V))(declare-const x V)(declare-const c V)(declare-const i Int)(declare-const k Int)
(assert (not (= (seq.contains (seq.unit c) (seq.unit x)) (= x c))))
(check-sat)
