; 0 <= i < len(s)  =>  ismem(s, s[i])   (emitted for the loop element)
; USES:
(declare-const a (Seq V))(declare-const b (Seq V))(declare-const s (Seq V))(declare-const x V)(declare-const c V)(declare-const i Int)(declare-const k Int)
(assert (and (<= 0 i) (< i (seq.len s)) (not (seq.contains s (seq.unit (seq.nth s i))))))
(check-sat)
