; s[:k+1] == s[:k] ++ [s[k]]   (emitted for loop-prefix invariants)
; USES:
(declare-const a (Seq V))(declare-const b (Seq V))(declare-const s (Seq V))(declare-const x V)(declare-const c V)(declare-const i Int)(declare-const k Int)
(assert (and (<= 0 k) (< k (seq.len s)) (not (= (seq.extract s 0 (+ k 1)) (seq.++ (seq.extract s 0 k) (seq.unit (seq.nth s k)))))))
(check-sat)
