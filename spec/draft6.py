"""Independent executable oracle: JSON Schema Draft 6 validation (draft-wright-json-schema-validation-01
section 6) over the keywords statham supports, with statham's three documented deviations:

  Dev-1  "integer" means a Python int that is not a bool (1.0 is not an integer)
  Dev-2  "format" constrains only when a checker is registered under that name
  Dev-3  a required property whose own schema declares a default may be omitted

Written from the specification text, not from statham's code.  `re` is Python's dialect.
"""
import math
import re

from .pyspec import json_eq, is_num, is_bool

SUPPORTED = {
    "type", "enum", "const", "multipleOf", "maximum", "exclusiveMaximum", "minimum", "exclusiveMinimum",
    "maxLength", "minLength", "pattern", "items", "additionalItems", "maxItems", "minItems", "uniqueItems",
    "contains", "maxProperties", "minProperties", "required", "properties", "patternProperties",
    "additionalProperties", "dependencies", "propertyNames", "allOf", "anyOf", "oneOf", "not", "format",
    "default", "title", "description", "definitions", "_x_autotitle", "$schema", "$id", "examples",
}


def type_ok(t, v):
    if t == "null":
        return v is None
    if t == "boolean":
        return is_bool(v)
    if t == "integer":
        return isinstance(v, int) and not is_bool(v)          # Dev-1
    if t == "number":
        return is_num(v)
    if t == "string":
        return isinstance(v, str)
    if t == "array":
        return isinstance(v, list)
    if t == "object":
        return isinstance(v, dict)
    raise ValueError(f"type {t!r}")


def multiple_of(v, m):
    """6.1: division of the instance by the keyword's value results in an integer.  For binary floats
    the reading used is the one every reference validator uses: the float quotient is integral;
    exact arithmetic when both are ints; exact rational fallback when the float quotient overflows."""
    from fractions import Fraction
    if isinstance(m, int) and isinstance(v, int):
        return v % m == 0
    try:
        if isinstance(m, float):
            q = v / m
            if math.isinf(q):
                raise OverflowError
            return q == int(q)
        return not (v % m)
    except OverflowError:
        return Fraction(v) % Fraction(m) == 0


def resolve(root, ref):
    if not ref.startswith("#"):
        raise KeyError(ref)
    node = root
    for part in ref[1:].split("/"):
        if part == "":
            continue
        part = part.replace("~1", "/").replace("~0", "~")
        node = node[int(part)] if isinstance(node, list) else node[part]
    return node


def valid(S, v, formats=None, deviations=True, root=None):
    """Is JSON value v valid against schema S (dict or bool)?  `root` resolves "$ref": "#/..." pointers."""
    if S is True:
        return True
    if S is False:
        return False
    if root is None:
        root = S
    if "$ref" in S:
        return valid(resolve(root, S["$ref"]), v, formats, deviations, root)
    g = S.get
    if "type" in S:
        ts = S["type"] if isinstance(S["type"], list) else [S["type"]]
        if not any(type_ok(t, v) for t in ts):
            return False
    if "enum" in S and not any(json_eq(v, x) for x in S["enum"]):
        return False
    if "const" in S and not json_eq(v, S["const"]):
        return False
    if is_num(v):
        if "multipleOf" in S and not multiple_of(v, S["multipleOf"]):
            return False
        if "maximum" in S and not v <= S["maximum"]:
            return False
        if "exclusiveMaximum" in S and not v < S["exclusiveMaximum"]:
            return False
        if "minimum" in S and not v >= S["minimum"]:
            return False
        if "exclusiveMinimum" in S and not v > S["exclusiveMinimum"]:
            return False
    if isinstance(v, str):
        if "maxLength" in S and not len(v) <= S["maxLength"]:
            return False
        if "minLength" in S and not len(v) >= S["minLength"]:
            return False
        if "pattern" in S and re.search(S["pattern"], v) is None:
            return False
        if "format" in S and formats is not None and S["format"] in formats:      # Dev-2
            if not formats[S["format"]](v):
                return False
    if isinstance(v, list):
        items = g("items", True)
        if isinstance(items, list):
            for i, x in enumerate(v):
                sub = items[i] if i < len(items) else g("additionalItems", True)
                if not valid(sub, x, formats, deviations, root):
                    return False
        else:
            if not all(valid(items, x, formats, deviations, root) for x in v):
                return False
        if "maxItems" in S and not len(v) <= S["maxItems"]:
            return False
        if "minItems" in S and not len(v) >= S["minItems"]:
            return False
        if g("uniqueItems", False) and any(json_eq(v[a], v[b]) for a in range(len(v)) for b in range(a + 1, len(v))):
            return False
        if "contains" in S and not any(valid(S["contains"], x, formats, deviations, root) for x in v):
            return False
    if isinstance(v, dict):
        if "maxProperties" in S and not len(v) <= S["maxProperties"]:
            return False
        if "minProperties" in S and not len(v) >= S["minProperties"]:
            return False
        props = g("properties", {})
        for r in g("required", []):
            if r not in v:
                sub = props.get(r)
                if isinstance(sub, dict) and "$ref" in sub:
                    sub = resolve(root, sub["$ref"])
                if deviations and isinstance(sub, dict) and "default" in sub:      # Dev-3
                    continue
                return False
        pats = g("patternProperties", {})
        addl = g("additionalProperties", True)
        for k, x in v.items():
            matched = False
            if k in props:
                matched = True
                if not valid(props[k], x, formats, deviations, root):
                    return False
            for p, sub in pats.items():
                if re.search(p, k) is not None:
                    matched = True
                    if not valid(sub, x, formats, deviations, root):
                        return False
            if not matched and not valid(addl, x, formats, deviations, root):
                return False
        for k, dep in g("dependencies", {}).items():
            if k in v:
                if isinstance(dep, list):
                    if any(d not in v for d in dep):
                        return False
                elif not valid(dep, v, formats, deviations, root):
                    return False
        if "propertyNames" in S and not all(valid(S["propertyNames"], k, formats, deviations, root) for k in v):
            return False
    if "allOf" in S and not all(valid(s, v, formats, deviations, root) for s in S["allOf"]):
        return False
    if "anyOf" in S and not any(valid(s, v, formats, deviations, root) for s in S["anyOf"]):
        return False
    if "oneOf" in S and sum(1 for s in S["oneOf"] if valid(s, v, formats, deviations, root)) != 1:
        return False
    if "not" in S and valid(S["not"], v, formats, deviations, root):
        return False
    return True
