; Lemma JSON-INTRO (spec/lemmas/json_intro_*.smt2, discharged each run): a sequence all of whose members (entry values) are JSON values
; satisfies is_json_seq / is_json_vals from index 0.  The premise is stated through its Skolem counterexample json_intro_cx(x).
; (json_touch is an uninterpreted predicate asserted of the counterexample member: it only makes that term relevant to the solvers'
; E-matching, so that the dict / sequence axioms are instantiated at it; asserting it constrains nothing else.)
(declare-fun json_intro_cx (V) Int)
(declare-fun json_touch (V) Bool)
(assert (forall ((x V)) (! (=> ((_ is v_list) x)
   (and (json_touch (seq.nth (lval x) (json_intro_cx x)))
   (or (is_json_seq (lval x) 0)
       (and (<= 0 (json_intro_cx x)) (< (json_intro_cx x) (seq.len (lval x))) (not (is_json (seq.nth (lval x) (json_intro_cx x))))))))
   :pattern ((lval x)))))
(assert (forall ((x V)) (! (=> ((_ is v_dict) x)
   (and (json_touch (seq.nth (ditems x) (json_intro_cx x)))
   (or (is_json_vals (ditems x) 0)
       (and (<= 0 (json_intro_cx x)) (< (json_intro_cx x) (seq.len (ditems x))) (not (is_json (pval (seq.nth (ditems x) (json_intro_cx x)))))))))
   :pattern ((ditems x)))))
