"""Contracts: statham/schema/validation/numeric.py (Draft-6 validation §6.1-6.5)."""
from pyvc.contracts import contract

M = "statham.schema.validation.numeric:"
NUMREQ = "is_num(value) and dict_wf(self.params) and has(self.params, '{k}') and is_num(self.params['{k}'])"

contract(M + "Minimum._validate", requires=NUMREQ.format(k="minimum"),
         raises=[("ValidationError", "num(value) < num(self.params['minimum'])")],
         props=["C01", "C10", "C08"])
contract(M + "Maximum._validate", requires=NUMREQ.format(k="maximum"),
         raises=[("ValidationError", "num(value) > num(self.params['maximum'])")],
         props=["C01", "C10", "C08"])
contract(M + "ExclusiveMinimum._validate", requires=NUMREQ.format(k="exclusiveMinimum"),
         raises=[("ValidationError", "num(value) <= num(self.params['exclusiveMinimum'])")],
         props=["C01", "C10", "C08"])
contract(M + "ExclusiveMaximum._validate", requires=NUMREQ.format(k="exclusiveMaximum"),
         raises=[("ValidationError", "num(value) >= num(self.params['exclusiveMaximum'])")],
         props=["C01", "C10", "C08"])
