"""Contracts that leaf validators call through.  Element.__call__ is verified in contracts/elements_base.py
against the same clause; here is the clause as callers see it."""
from pyvc.contracts import contract

contract("statham.schema.elements.base:Element.__call__",
         requires="True",
         returns="result is (dflt(self) if is_np(value) else build(self, value))",
         raises=[(("ValidationError", "TypeError"), "not is_np(value) and not sem(self, value)")],
         ghost={"function": "dflt(self) if is_np(value) else build(self, value)"},
         props=["C01", "C04", "C10"], trusted=True,
         note="callers' view: returns build(self,v) iff sem(self,v), else ValidationError/TypeError")
