"""Contracts: statham/serializers/orderer.py."""
from pyvc.contracts import contract

O = "statham.serializers.orderer:"

# C11 position coverage: every element sitting directly at one of the keyword positions through which validation
# recurses is among the children (the deep closure follows by the recursive call, which is by this same contract).
POSITIONS = [
    ("contains", "implies(not attr_absent(element,'contains') and isinstance(element.contains, Element), member_is(result, element.contains))"),
    ("additionalItems", "implies(not attr_absent(element,'additionalItems') and isinstance(element.additionalItems, Element), member_is(result, element.additionalItems))"),
    ("additionalProperties", "implies(not attr_absent(element,'additionalProperties') and isinstance(element.additionalProperties, Element), member_is(result, element.additionalProperties))"),
    ("propertyNames", "implies(not attr_absent(element,'propertyNames') and isinstance(element.propertyNames, Element), member_is(result, element.propertyNames))"),
    ("items", "implies(not attr_absent(element,'items') and isinstance(element.items, Element), member_is(result, element.items))"),
    ("element", "implies(not attr_absent(element,'element') and isinstance(element.element, Element), member_is(result, element.element))"),
]
contract(O + "get_children", requires="isinstance(element, Element) and (seen is None or is_set(seen))",
         returns="is_list(result) and " + " and ".join(f"implies(is_obj(element) and not seen_has(old(seen), element), {c})" for _, c in POSITIONS),
         modifies=["seen"], result_kind="list", kinds={"=seen": "set"}, ghost={"filter_facts": "membership"}, lemmas=["IS-MEM"],
         invariants={1: "is_set(seen) and is_list(_yielded) and members_subset(prefix(_seq, _k), _yielded)"}, props=["C11", "C02", "C03", "C09"])


# _get_path, instantiated per constant path (the ten paths of get_children).  Single-segment paths: the attribute itself,
# a list as its members, nothing if absent.  Paths through `*` flatten nested lists (itertools.chain): assumed, bounded-checked.
SIMPLE = ["items", "additionalItems", "contains", "additionalProperties", "propertyNames", "elements", "element"]
for p in SIMPLE:
    contract(O + "_get_path", inst=p, requires="isinstance(element, Element)",
             returns=f"is_list(result) and implies(is_obj(element), result is ([] if attr_absent(element,'{p}') else (element.{p} if is_list(element.{p}) else [element.{p}])))",
             result_kind="list", kinds={"path": "const:" + p}, props=["C11"])
for p in ["properties.*.element", "patternProperties.*", "dependencies.*"]:
    contract(O + "_get_path", inst=p, requires="isinstance(element, Element)", returns="is_list(result)", result_kind="list",
             kinds={"path": "const:" + p}, trusted=True, props=["C11"], note="path through `*`: itertools.chain flattening of per-member results (bounded-checked in C11/C03)")
