"""Contracts: statham/serializers/orderer.py."""
from pyvc.contracts import contract

O = "statham.serializers.orderer:"

# C11 position coverage: every element sitting directly at one of the keyword positions through which validation
# recurses is among the children (the deep closure follows by the recursive call, which is by this same contract).
POSITIONS = [
    ("contains", "implies(not attr_absent(element,'contains') and isinstance(element.contains, Element), member_is(result, element.contains))"),
    ("additionalItems", "implies(not attr_absent(element,'additionalItems') and isinstance(element.additionalItems, Element), member_is(result, element.additionalItems))"),
    ("additionalProperties", "implies(not attr_absent(element,'additionalProperties') and isinstance(element.additionalProperties, Element), member_is(result, element.additionalProperties))"),
    ("propertyNames", "implies(not attr_absent(element,'propertyNames') and isinstance(element.propertyNames, Element), member_is(result, element.propertyNames))"),
    ("items", "implies(not attr_absent(element,'items') and isinstance(element.items, Element), member_is(result, element.items))"),
    ("element", "implies(not attr_absent(element,'element') and isinstance(element.element, Element), member_is(result, element.element))"),
    # list-valued positions: tuple `items` and the members of a composition
    ("items[]", "implies(not attr_absent(element,'items') and is_list(element.items), all_members(element.items, lambda m: implies(isinstance(m, Element), member_is(result, m))))"),
    ("elements[]", "implies(not attr_absent(element,'elements') and is_list(element.elements), all_members(element.elements, lambda m: implies(isinstance(m, Element), member_is(result, m))))"),
]
# shape of the dict-valued keyword attributes of every element object (an invariant of the inputs, stated over the whole heap so
# that it also covers the children handed to the recursive call): what Element.__init__ / the properties setter establish
from pyvc.contracts import macro
_PROPS_OK = ("forall(lambda j: isinstance(val_at({d}, j), _Property) and not attr_absent(val_at({d}, j),'element') and "
             "is_obj(val_at({d}, j).element), len({d}))")
macro("gp_shape", ["x"],
      "(attr_absent(x,'patternProperties') or is_np(x.patternProperties) or dict_wf(x.patternProperties)) and "
      "(attr_absent(x,'dependencies') or is_np(x.dependencies) or dict_wf(x.dependencies)) and "
      "(attr_absent(x,'_properties') or is_np(x._properties) or (isinstance(x._properties, _PropertyDict) and dict_wf(obj_dict(x._properties)) and "
      + _PROPS_OK.format(d="obj_dict(x._properties)") + "))")
HEAP_OK = "forall_v(lambda x: implies(isinstance(x, Element), gp_shape(x)))"
_PDX = "obj_dict(element._properties)"
POSITIONS += [
    ("properties", f"implies(not attr_absent(element,'_properties') and not is_np(element._properties), forall(lambda j: implies(isinstance(val_at({_PDX}, j).element, Element), member_is(result, val_at({_PDX}, j).element)), len({_PDX})))"),
    ("patternProperties", "implies(not attr_absent(element,'patternProperties') and is_dict(element.patternProperties), forall(lambda j: implies(isinstance(val_at(element.patternProperties, j), Element), "
                          "member_is(result, val_at(element.patternProperties, j))), len(element.patternProperties)))"),
    ("dependencies", "implies(not attr_absent(element,'dependencies') and is_dict(element.dependencies), forall(lambda j: implies(isinstance(val_at(element.dependencies, j), Element), "
                     "member_is(result, val_at(element.dependencies, j))), len(element.dependencies)))"),
]
contract(O + "get_children", requires="isinstance(element, Element) and (seen is None or is_set(seen)) and " + HEAP_OK,
         returns="is_list(result) and " + " and ".join(f"implies(is_obj(element) and not seen_has(old(seen), element), {c})" for _, c in POSITIONS),
         modifies=["seen"], result_kind="list", kinds={"=seen": "set"}, ghost={"filter_facts": "membership"}, lemmas=["IS-MEM"],
         invariants={1: "is_set(seen) and is_list(_yielded) and members_subset(prefix(_seq, _k), _yielded)"}, props=["C11", "C02", "C03", "C09"])


# _get_path, instantiated per constant path (the ten paths of get_children).  Single-segment paths: the attribute itself,
# a list as its members, nothing if absent.  Paths through `*` flatten nested lists (itertools.chain): assumed, bounded-checked.
SIMPLE = ["items", "additionalItems", "contains", "additionalProperties", "propertyNames", "elements", "element"]
for p in SIMPLE:
    contract(O + "_get_path", inst=p, requires="isinstance(element, Element)" + (" or isinstance(element, _Property)" if p == "element" else ""),
             returns=f"is_list(result) and implies(is_obj(element), result is ([] if attr_absent(element,'{p}') else (element.{p} if is_list(element.{p}) else [element.{p}])))",
             result_kind="list", kinds={"path": "const:" + p}, props=["C11"],
             ghost=({"function": "([] if attr_absent(element,'element') else (element.element if is_list(element.element) else [element.element]))"} if p == "element" else {}))
# `*.element` on the property dict of an element: the elements of its properties, in order
PROPS_OK = ("forall(lambda j: isinstance(val_at({d}, j), _Property) and not attr_absent(val_at({d}, j),'element') and "
            "is_obj(val_at({d}, j).element), len({d}))")
contract(O + "_get_path", inst="*.element",
         requires="(is_np(element) or ((is_dict(element) or isinstance(element, _PropertyDict)) and dict_wf(obj_dict(element)) and " + PROPS_OK.format(d="obj_dict(element)") + "))",
         returns="is_list(result) and implies(is_np(element), len(result) == 0) and implies(not is_np(element), len(result) == len(obj_dict(element)) and "
                 "forall(lambda j: result[j] is val_at(obj_dict(element), j).element, len(obj_dict(element))))",
         result_kind="list", kinds={"path": "const:*.element"}, props=["C11"])
PD_ = "obj_dict(element.properties)"
contract(O + "_get_path", inst="properties.*.element",
         requires="isinstance(element, Element) and (attr_absent(element,'_properties') or is_np(element._properties) or (isinstance(element._properties, _PropertyDict) and "
                  "dict_wf(obj_dict(element._properties)) and " + PROPS_OK.format(d="obj_dict(element._properties)") + "))",
         returns=f"is_list(result) and implies(is_obj(element) and not attr_absent(element,'_properties') and not is_np(element._properties), len(result) == len(obj_dict(element._properties)) and "
                 "forall(lambda j: result[j] is val_at(obj_dict(element._properties), j).element, len(obj_dict(element._properties))) and "
                 "forall(lambda j: member_is(result, val_at(obj_dict(element._properties), j).element), len(obj_dict(element._properties))))",
         result_kind="list", kinds={"path": "const:properties.*.element"}, lemmas=["IS-MEM", "IS-MEM-NTH"], props=["C11"])

# the `*` segment: the values of a dict, in order; nothing for a value without `.values()` (NotPassed)
contract(O + "_get_path", inst="*", requires="dict_wf(element) or is_np(element)",
         returns="is_list(result) and implies(is_np(element), len(result) == 0) and "
                 "implies(is_dict(element), len(result) == len(element) and forall(lambda j: result[j] is val_at(element, j), len(element)))",
         result_kind="list", kinds={"path": "const:*"}, props=["C11"])
for p in ["patternProperties", "dependencies"]:
    D = f"element.{p}"
    contract(O + "_get_path", inst=p + ".*",
             requires=f"isinstance(element, Element) and (attr_absent(element,'{p}') or is_np({D}) or dict_wf({D}))",
             returns=f"is_list(result) and implies(is_obj(element) and not attr_absent(element,'{p}') and is_dict({D}), "
                     f"len(result) == len({D}) and forall(lambda j: result[j] is val_at({D}, j), len({D})) and forall(lambda j: member_is(result, val_at({D}, j)), len({D})))",
             result_kind="list", kinds={"path": "const:" + p + ".*"}, lemmas=["IS-MEM", "IS-MEM-NTH"], props=["C11"])
