"""Contracts: statham/schema/helpers.py."""
from pyvc.contracts import contract

H = "statham.schema.helpers:"

# documented constructor keywords (docs/source/modeldef.rst, Element docstring) and their defaults, per typed element class
COMMON = ["default", "const", "enum"]
KEYWORDS = {
    "String": COMMON + ["format", "pattern", "minLength", "maxLength", "description"],
    "Integer": COMMON + ["minimum", "maximum", "exclusiveMinimum", "exclusiveMaximum", "multipleOf", "description"],
    "Number": COMMON + ["minimum", "maximum", "exclusiveMinimum", "exclusiveMaximum", "multipleOf", "description"],
    "Boolean": COMMON + ["description"],
    "Null": COMMON + ["description"],
}

# C18: per concrete class: the Args hold exactly the keywords whose value differs from the constructor default (NotPassed),
# each with the element's own value, and no positional arguments -- so K(**kwargs) rebuilds an element with the same attributes
for K, kws in KEYWORDS.items():
    present = " and ".join(f"not attr_absent(self,'{k}')" for k in kws)
    each = " and ".join(f"has(result.kwargs,'{k}') == (not is_np(self.{k})) and implies(not is_np(self.{k}), result.kwargs['{k}'] is self.{k})" for k in kws)
    contract(H + "custom_repr_args", inst=K, requires=f"type_is(self, {K}) and {present}",
             returns=f"type_is(result, Args) and is_tuple(result.args) and len(result.args) == 0 and dict_wf(result.kwargs) and {each}",
             kinds={"self": "=" + K, "**overrides": "empty"}, props=["C18", "C02"])
