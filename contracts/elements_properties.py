"""Contracts: statham/schema/elements/properties.py."""
from pyvc.contracts import contract

P = "statham.schema.elements.properties:"

contract(P + "PatternDict.getall", requires="is_str(key) and dict_wf(obj_dict(self)) and forall(lambda j: is_str(key_at(obj_dict(self), j)), len(obj_dict(self)))",
         returns="is_list(result) and (len(result) == 0) == forall(lambda j: not re_search(key_at(obj_dict(self), j), key), len(obj_dict(self))) and "
                 "forall(lambda q: exists(lambda j: re_search(key_at(obj_dict(self), j), key) and result[q] is val_at(obj_dict(self), j), len(obj_dict(self))), len(result))",
         result_kind="list", ghost={"result_fresh": True}, kinds={"key": "str"}, props=["C01", "C08"])

# bound(P): every property of the dict is bound under its key, to `element`, with a source.  Established by the
# `properties` setter / _PropertyDict.__setitem__ / parent setter; under it Properties.__init__'s re-binding writes the
# values already there (the Owicki-Gries same-value condition used for C14)
BOUND = ("forall(lambda j: isinstance(val_at(obj_dict(props), j), _Property) and not attr_absent(val_at(obj_dict(props), j),'element') and "
         "not attr_absent(val_at(obj_dict(props), j),'required') and val_at(obj_dict(props), j).name is key_at(obj_dict(props), j) and "
         "is_str(val_at(obj_dict(props), j).source) and val_at(obj_dict(props), j).parent is element, len(obj_dict(props)))")
contract(P + "Properties.__init__",
         requires="(is_obj(element) or is_cls(element)) and (is_np(props) or (isinstance(props, _PropertyDict) and dict_wf(obj_dict(props)) and " + BOUND + ")) and "
                  "(pattern is None or is_np(pattern) or dict_wf(pattern)) and (is_bool(additional) or is_obj(additional))",
         returns="self.element is element and self.props is (props if truthy(props) else {}) and isinstance(self.pattern, PatternDict) and "
                 "obj_dict(self.pattern) is (pattern if truthy(pattern) else {}) and implies(is_obj(additional), self.additional is additional) and "
                 "implies(additional is True, type_is(self.additional, Element)) and implies(additional is False, type_is(self.additional, Nothing))",
         modifies=["self"], idempotent_writes=["_Property.bind"],
         kinds={"prop": "_Property"}, props=["C01", "C05", "C08", "C13", "C14"])

SELF_WF = ("not attr_absent(self,'element') and (is_obj(self.element) or is_cls(self.element)) and not attr_absent(self,'props') and not attr_absent(self,'pattern') and "
           "not attr_absent(self,'additional') and is_obj(self.additional) and isinstance(self.pattern, PatternDict) and dict_wf(obj_dict(self.pattern)) and "
           "forall(lambda j: is_str(key_at(obj_dict(self.pattern), j)) and is_obj(val_at(obj_dict(self.pattern), j)), len(obj_dict(self.pattern))) and "
           "(is_dict(self.props) or isinstance(self.props, _PropertyDict)) and dict_wf(obj_dict(self.props)) and "
           "forall(lambda j: isinstance(val_at(obj_dict(self.props), j), _Property) and not attr_absent(val_at(obj_dict(self.props), j),'element') and "
           "is_obj(val_at(obj_dict(self.props), j).element) and not attr_absent(val_at(obj_dict(self.props), j),'required') and "
           "(is_none(val_at(obj_dict(self.props), j).name) or is_str(val_at(obj_dict(self.props), j).name)) and not attr_absent(val_at(obj_dict(self.props), j),'parent') and "
           "(is_str(val_at(obj_dict(self.props), j).source) or is_none(val_at(obj_dict(self.props), j).source)), len(obj_dict(self.props)))")

from pyvc.contracts import macro
macro("props_wf", ["self"], SELF_WF)

contract(P + "Properties.property", requires="not attr_absent(self,'element') and is_obj(element)",
         returns="isinstance(result, _Property) and result.element is element and result.name is (name if truthy(name) else None) and result.required is False and "
                 "not attr_absent(result,'source') and not attr_absent(result,'parent')",
         result_cls="_Property", ghost={"result_fresh": True}, props=["C01", "C04", "C08"])

# __getitem__: which schema governs a key (Draft-6 6.18-6.20).  declared(k) = the property whose JSON name is k;
# pats(k) = the pattern elements whose regex matches k.
contract(P + "Properties.__getitem__", requires=SELF_WF + " and is_str(key)",
         returns="isinstance(result, _Property) and not attr_absent(result,'element') and is_obj(result.element) and not attr_absent(result,'name') and "
                 "not attr_absent(result,'required') and not attr_absent(result,'source') and not attr_absent(result,'parent') and "
                 "(is_none(result.name) or is_str(result.name)) and "
                 # a key that is the JSON name of a declared property and matches no pattern is governed by that very property
                 "implies(forall(lambda q: not re_search(key_at(obj_dict(self.pattern), q), key), len(obj_dict(self.pattern))) and "
                 "forall(lambda i: is_str(val_at(obj_dict(self.props), i).source), len(obj_dict(self.props))), "
                 "forall(lambda j: implies(val_at(obj_dict(self.props), j).source == key and "
                 "forall(lambda i: implies(i > j, val_at(obj_dict(self.props), i).source != key), len(obj_dict(self.props))), result is val_at(obj_dict(self.props), j)), len(obj_dict(self.props))))",
         ghost={"function": "prop_for(self, key)", "function_facts": True},
         result_cls="_Property", kinds={"key": "str", "prop": "_Property", "self.pattern": "PatternDict"},
         props=["C01", "C04", "C05", "C08", "C13", "C14"])


contract(P + "Properties.__contains__", requires=SELF_WF + " and is_str(key)", returns="is_bool(result)", result_kind="bool",
         ghost={"function": "props_accepts(self, key)"},
         kinds={"key": "str"}, props=["C01", "C08"],
         note="callers see the functional view props_accepts(self, key) (uninterpreted): the key is covered by a declared property, a pattern, or a non-Nothing additional")

contract(P + "Properties.__call__", requires=SELF_WF + " and dict_wf(value) and forall(lambda j: not is_np(val_at(value, j)), len(value))",
         returns="is_dict(result)",
         raises=[(("ValidationError", "TypeError"), "exists(lambda j: not sem(prop_for(self, key_at(value, j)).element, val_at(value, j)), len(value))")],
         kinds={"value": "dict", "prop": "_Property"}, result_kind="dict", lemmas=["DICT-ITEM"],
         props=["C01", "C04", "C05", "C08", "C13", "C14"])
