"""Lemma family VALS-D6: the validators of an element accept a value exactly when every keyword clause holds.

Hypotheses are clauses of the (verified) postcondition of Element.validators[K] / get_validators -- membership characterisation
of the validator list `vs` of element `self` -- and lemma VREJ[C] (the verified contract Validator.__call__[C] restated for
`vrejects`).  Conclusions are the Draft-6 keyword clauses with the *element's* keyword values:

  FWD[C]   vs accepts x            =>  clause_C(self, x)                    (one lemma per validator class C)
  BWD[C]   clause_C(self, x), m in vs of class C   =>  m accepts x          (one lemma per validator class C)

With the exhaustiveness clause (every member of vs has one of these classes) the BWD family gives: all clauses => vs accepts x.
Together with Element.__call__[K] (raises iff not sem; SEM-DEF: sem = vs accepts and construct succeeds) this is C01's statement
at the level of one element: sem(self, x) <=> (all keyword clauses of self hold of x) and csem(self, x).
"""
from pyvc.contracts import contract
from contracts import elements_base as EB

L = "spec.lemma_stubs:"
WF = "(is_obj(self) or is_cls(self)) and elem_wf(self) and is_list(vs) and is_json(x)"
sub = lambda t: t.replace("element", "self").replace("result", "vs")

EFF_STR = "is_list(eff_required(self)) and forall(lambda j: is_str(eff_required(self)[j]), len(eff_required(self)))"
contract(L + "vals_fwd", inst="eff_required", requires=WF, returns=EFF_STR, kinds={"vs": "list"}, ghost={"lemma": True},
         props=["C01", "C03", "C06", "C17"], note="the effective required list (own `required` followed by the properties' required names) is a list of strings: from elem_wf")
for C, present, params in EB._GV:
    if C == "AdditionalProperties":
        continue        # kept abstract (its Properties object is built per access): the clause *is* "that validator accepts"
    a = f"implies({sub(present)}, some_member(vs, lambda m: type_is(m, {C}) and dict_wf(m.params) and {sub(params)}))"
    b = f"all_members(vs, lambda m: implies(type_is(m, {C}), ({sub(present)}) and dict_wf(m.params) and {sub(params)}))"
    clause = EB._clause_for(C, present, None)
    extra = f" and {EFF_STR}" if C == "Required" else ""
    uses = ["vals_fwd[eff_required]"] if C == "Required" else []
    contract(L + "vals_fwd", inst=C, requires=f"{WF}{extra} and {a} and accepts_all(vs, x)", returns=clause,
             kinds={"vs": "list"}, lemmas=["VREJ"], ghost={"lemma": True, "uses": uses},
             props=["C01", "C03", "C06", "C17"],
             note=f"hypotheses: Element.validators[K] clause (a) for {C}; VREJ[{C}]")
    contract(L + "vals_bwd", inst=C, requires=f"{WF}{extra} and {b} and is_obj(m) and type_is(m, {C}) and member_is(vs, m) and ({clause})",
             returns="not vrejects(m, x)", kinds={"vs": "list"}, lemmas=["VREJ"], ghost={"lemma": True, "uses": uses},
             props=["C01", "C03", "C06", "C17"],
             note=f"hypotheses: Element.validators[K] clause (b) for {C}; VREJ[{C}]")

# ---- the type clause: the InstanceOf validator of the element's class
import re as _re
from pyvc.contracts import REG as _REG
_TC = _re.sub(r"\bvalue\b", "x", _REG[(EB._VCALL, "InstanceOf")].raises[0][1])
_TYPESETS = sorted(set(EB.TYPES.values()))
def tclause(T):
    return "not (" + _TC.replace("self.params['types']", T) + ")"
def tname(T):
    return "types" + "".join(ch if ch.isalnum() else "_" for ch in T)
for T in _TYPESETS:
    a = f"some_member(vs, lambda m: type_is(m, InstanceOf) and dict_wf(m.params) and has(m.params,'types') and m.params['types'] is {T})"
    b = f"all_members(vs, lambda m: implies(type_is(m, InstanceOf), dict_wf(m.params) and has(m.params,'types') and m.params['types'] is {T}))"
    contract(L + "vals_fwd", inst=tname(T), requires=f"{WF} and {a} and accepts_all(vs, x)", returns=tclause(T),
             kinds={"vs": "list"}, lemmas=["VREJ"], ghost={"lemma": True}, props=["C01", "C03", "C06", "C17"],
             note="hypotheses: Element.validators[K] InstanceOf clause; VREJ[InstanceOf]")
    contract(L + "vals_bwd", inst=tname(T), requires=f"{WF} and {b} and is_obj(m) and type_is(m, InstanceOf) and member_is(vs, m) and ({tclause(T)})",
             returns="not vrejects(m, x)", kinds={"vs": "list"}, lemmas=["VREJ"], ghost={"lemma": True}, props=["C01", "C03", "C06", "C17"],
             note="hypotheses: Element.validators[K] InstanceOf clause; VREJ[InstanceOf]")

# ---- assembly, per element class K:   sem(self, x)  <=>  every keyword clause, the type clause, the (abstract) additional-
# properties validator, and construct succeeds.   Hypotheses: the postcondition of Element.validators[K] (vs for result), the
# definitional link vs is validators_of(self), the statements of the FWD/BWD lemmas above (each with its own hypotheses), SEM-DEF.
AP_ABS = "all_members(vs, lambda m: implies(type_is(m, AdditionalProperties), not vrejects(m, x)))"
def d6_of(K):
    cl = [EB._clause_for(C, present, None) for C, present, params in EB._GV if C != "AdditionalProperties"]
    return cl + [tclause(EB.TYPES[K]), AP_ABS]
_PARTS = {}
EXH = "all_members(vs, lambda m: type_is(m, InstanceOf) or " + " or ".join(f"type_is(m, {C})" for C, _, _ in EB._GV) + ")"
for K in EB.INST_CLASSES:
    T = EB.TYPES[K]
    bs, lem = [], []
    for C, present, params in EB._GV:
        if C == "AdditionalProperties":
            continue
        bs.append(f"all_members(vs, lambda m: implies(type_is(m, {C}), ({sub(present)}) and dict_wf(m.params) and {sub(params)}))")
        c = _REG[(L + "vals_bwd", C)]
        lem.append("all_members(vs, lambda m: implies(" + c.requires.replace(" and member_is(vs, m)", "") + ", " + c.returns + "))")
    bs.append(f"all_members(vs, lambda m: implies(type_is(m, InstanceOf), dict_wf(m.params) and has(m.params,'types') and m.params['types'] is {T}))")
    c = _REG[(L + "vals_bwd", tname(T))]
    lem.append("all_members(vs, lambda m: implies(" + c.requires.replace(" and member_is(vs, m)", "") + ", " + c.returns + "))")
    d6 = " and ".join(f"({c})" for c in d6_of(K))
    _PARTS[K] = (bs, lem, d6)
    # (i) every clause holds  =>  every member of vs accepts x
    contract(L + "vals_all", inst=K + ".bwd",
             requires=f"{WF} and all_members(vs, lambda m: is_obj(m)) and {EXH} and " + " and ".join(bs) + " and " + " and ".join(lem) + f" and {d6}",
             returns="accepts_all(vs, x)", kinds={"vs": "list"},
             ghost={"lemma": True, "uses": [f"vals_bwd[{C}]" for C, _, _ in EB._GV if C != "AdditionalProperties"] + [f"vals_bwd[{tname(T)}]"]},
             props=["C01", "C03", "C06", "C17"],
             note=f"assembly (<=) for element class {K}: exhaustiveness and (b) clauses of Element.validators[{K}], statements of the BWD lemmas")
    # (ii) SEM-DEF at this element
    contract(L + "vals_all", inst=K + ".sem", requires=f"{WF} and vs is validators_of(self)",
             returns="sem(self, x) == (accepts_all(vs, x) and csem(self, x))", kinds={"vs": "list"}, ghost={"lemma": True},
             props=["C01", "C03", "C06", "C17"], note="SEM-DEF instantiated: vs is (by definition) validators_of(self)")


# (iii) the theorem, per element class: from the postcondition of Element.validators[K], the statements of the FWD lemmas, of
# the BWD lemmas (they are hypotheses of (i)), and of (i) and (ii)
for K in EB.INST_CLASSES:
    T = EB.TYPES[K]
    bs, lem, d6 = _PARTS[K]
    post = sub(EB._val_post(K))
    hyp = []
    for C, present, params in EB._GV:
        if C == "AdditionalProperties":
            continue
        c = _REG[(L + "vals_fwd", C)]
        hyp.append(f"implies({c.requires}, {c.returns})")
    c = _REG[(L + "vals_fwd", tname(T))]
    hyp.append(f"implies({c.requires}, {c.returns})")
    for part in (".bwd", ".sem"):
        c = _REG[(L + "vals_all", K + part)]
        hyp.append(f"implies({c.requires}, {c.returns})")
    contract(L + "vals_all", inst=K,
             requires=f"{WF} and vs is validators_of(self) and all_members(vs, lambda m: is_obj(m)) and {post} and " + " and ".join(hyp + lem),
             returns=f"sem(self, x) == (({d6}) and csem(self, x))",
             kinds={"vs": "list"},
             ghost={"lemma": True, "uses": [f"vals_fwd[{C}]" for C, _, _ in EB._GV if C != "AdditionalProperties"] + [f"vals_fwd[{tname(T)}]", f"vals_all[{K}.bwd]", f"vals_all[{K}.sem]"]
                                           + [f"vals_bwd[{C}]" for C, _, _ in EB._GV if C != "AdditionalProperties"] + [f"vals_bwd[{tname(T)}]"]},
             props=["C01", "C03", "C06", "C17"],
             note=f"theorem for element class {K}: sem(self, x) <=> all keyword clauses, the type clause, the additional-properties validator, construct succeeds")

# ---- model classes: the validators of a class accept x exactly when the object-keyword clauses hold with the class's own keyword
# values, x is a dict (or an instance of the class), and the (abstract) additionalProperties validator accepts.
# Hypotheses: postcondition of ObjectMeta.validators (vs for result, self for cls), VREJ, the FWD/BWD lemma statements.
from contracts import elements_object as EO
TC = "(dict, self)"
a = f"some_member(vs, lambda m: type_is(m, InstanceOf) and dict_wf(m.params) and has(m.params,'types') and m.params['types'] is {TC})"
b = f"all_members(vs, lambda m: implies(type_is(m, InstanceOf), dict_wf(m.params) and has(m.params,'types') and m.params['types'] is {TC}))"
CWF = "is_cls(self) and isinstance(self, ObjectMeta) and elem_wf(self) and is_list(vs) and is_json(x)"
contract(L + "vals_fwd", inst="types_cls", requires=f"{CWF} and {a} and accepts_all(vs, x)", returns=tclause(TC),
         kinds={"vs": "list", "self": "cls"}, lemmas=["VREJ"], ghost={"lemma": True}, props=["C01", "C05", "C04"],
         note="hypotheses: ObjectMeta.validators InstanceOf clause; VREJ[InstanceOf]")
contract(L + "vals_bwd", inst="types_cls", requires=f"{CWF} and {b} and is_obj(m) and type_is(m, InstanceOf) and member_is(vs, m) and ({tclause(TC)})",
         returns="not vrejects(m, x)", kinds={"vs": "list", "self": "cls"}, lemmas=["VREJ"], ghost={"lemma": True}, props=["C01", "C05", "C04"],
         note="hypotheses: ObjectMeta.validators InstanceOf clause; VREJ[InstanceOf]")
_OBJ = [(C, present, params) for C, present, params in EB._GV if C in EO._OBJ_CLASSES]
bs, lem, fwd = [], [], []
for C, present, params in _OBJ:
    bs.append(f"all_members(vs, lambda m: implies(type_is(m, {C}), ({sub(present)}) and dict_wf(m.params) and {sub(params)}))")
    c = _REG[(L + "vals_bwd", C)]
    lem.append("all_members(vs, lambda m: implies(" + c.requires.replace(" and member_is(vs, m)", "") + ", " + c.returns + "))")
    c = _REG[(L + "vals_fwd", C)]
    fwd.append(f"implies({c.requires}, {c.returns})")
bs.append(b)
c = _REG[(L + "vals_bwd", "types_cls")]
lem.append("all_members(vs, lambda m: implies(" + c.requires.replace(" and member_is(vs, m)", "") + ", " + c.returns + "))")
c = _REG[(L + "vals_fwd", "types_cls")]
fwd.append(f"implies({c.requires}, {c.returns})")
clauses = [EB._clause_for(C, present, None) for C, present, params in _OBJ] + [tclause(TC), AP_ABS]
d6c = " and ".join(f"({c})" for c in clauses)
EXHC = "all_members(vs, lambda m: type_is(m, InstanceOf) or type_is(m, AdditionalProperties) or " + " or ".join(f"type_is(m, {C})" for C, _, _ in _OBJ) + ")"
uses_b = [f"vals_bwd[{C}]" for C, _, _ in _OBJ] + ["vals_bwd[types_cls]"]
uses_f = [f"vals_fwd[{C}]" for C, _, _ in _OBJ] + ["vals_fwd[types_cls]"]
contract(L + "vals_all", inst="@cls.bwd",
         requires=f"{CWF} and all_members(vs, lambda m: is_obj(m)) and {EXHC} and " + " and ".join(bs + lem) + f" and {d6c}",
         returns="accepts_all(vs, x)", kinds={"vs": "list", "self": "cls"}, ghost={"lemma": True, "uses": uses_b}, props=["C01", "C05", "C04"],
         note="assembly (<=) for model classes: exhaustiveness and (b) clauses of ObjectMeta.validators, statements of the BWD lemmas")
cb = _REG[(L + "vals_all", "@cls.bwd")]
contract(L + "vals_all", inst="@cls",
         requires=f"{CWF} and all_members(vs, lambda m: is_obj(m)) and " + sub(EO._obj_val_post()).replace("cls", "self") + " and " + " and ".join(fwd + lem)
                  + f" and implies({cb.requires}, {cb.returns})",
         returns=f"accepts_all(vs, x) == ({d6c})", kinds={"vs": "list", "self": "cls"},
         ghost={"lemma": True, "uses": uses_f + uses_b + ["vals_all[@cls.bwd]"]}, props=["C01", "C05", "C04"],
         note="theorem for model classes: the class's validators accept x <=> the object-keyword clauses with the class's own keyword values, "
              "x is a dict or an instance of the class, and the additionalProperties validator accepts (Object.__new__ raises iff not)")
