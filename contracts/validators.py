"""Contracts for every keyword validator: `_validate`, and per concrete class the inherited
`Validator.__call__`, `Validator.from_element`, `Validator.error_message`.

The raise condition of `K._validate` is the Draft-6 clause of the keyword (draft-wright-json-schema-
validation-01 section 6); `K.__call__` adds the type guard ("applies only to instances of ..."),
booleans never counting as numbers.
"""
from pyvc.contracts import contract

BASE = "statham.schema.validation.base:"
ECALL = "statham.schema.elements.base:Element.__call__"
STRLIST = "is_list({x}) and forall(lambda j: is_str({x}[j]), len({x}))"

DEPS = ("dict_wf(self.params['dependencies']) and "
        "forall(lambda j: (is_list(val_at(self.params['dependencies'], j)) and "
        "forall(lambda i: is_str(val_at(self.params['dependencies'], j)[i]), len(val_at(self.params['dependencies'], j))))"
        " or is_obj(val_at(self.params['dependencies'], j)), len(self.params['dependencies']))")
DEP_BAD = ("has(value, key_at(self.params['dependencies'], j)) and "
           "(not all_present(val_at(self.params['dependencies'], j), value) "
           "if is_list(val_at(self.params['dependencies'], j)) else not sem(val_at(self.params['dependencies'], j), value))")

# (module, class, value predicate, value kind, types tuple source, {keyword: requirement on self.params[kw]}, raise condition, extras)
TABLE = [
    ("numeric", "Minimum", "is_num(value)", None, "(int, float)", {"minimum": "is_num({p})"},
     "num(value) < num(self.params['minimum'])", {}),
    ("numeric", "Maximum", "is_num(value)", None, "(int, float)", {"maximum": "is_num({p})"},
     "num(value) > num(self.params['maximum'])", {}),
    ("numeric", "ExclusiveMinimum", "is_num(value)", None, "(int, float)", {"exclusiveMinimum": "is_num({p})"},
     "num(value) <= num(self.params['exclusiveMinimum'])", {}),
    ("numeric", "ExclusiveMaximum", "is_num(value)", None, "(int, float)", {"exclusiveMaximum": "is_num({p})"},
     "num(value) >= num(self.params['exclusiveMaximum'])", {}),
    ("numeric", "MultipleOf", "is_num(value)", None, "(int, float)", {"multipleOf": "is_num({p}) and num({p}) > 0"},
     "not d6_multiple(value, self.params['multipleOf'])", {"bounded_only": True}),
    ("array", "MinItems", "is_list(value)", "list", "(list,)", {"minItems": "is_num({p})"},
     "len(value) < num(self.params['minItems'])", {}),
    ("array", "MaxItems", "is_list(value)", "list", "(list,)", {"maxItems": "is_num({p})"},
     "len(value) > num(self.params['maxItems'])", {}),
    ("array", "AdditionalItems", "is_list(value)", "list", "(list,)",
     {"items": "((is_list({p}) and forall(lambda j: is_obj({p}[j]), len({p}))) or is_obj({p}))", "additionalItems": "(is_bool({p}) or is_obj({p}))"},
     "is_list(self.params['items']) and len(value) > len(self.params['items']) and not truthy(self.params['additionalItems'])", {}),
    ("array", "Contains", "is_list(value) and forall(lambda j: not is_np(value[j]), len(value))", "list", "(list,)",
     {"contains": "is_obj({p})"},
     "forall(lambda j: not sem(self.params['contains'], value[j]), len(value))",
     {"calls": {"self.params['contains']": ECALL},
      "invariants": {1: "forall(lambda j: not sem(self.params['contains'], _seq[j]), _k)"}}),
    ("object", "Required", "dict_wf(value)", "dict", "(dict,)", {"required": STRLIST},
     "not all_present(self.params['required'], value)", {"kinds": {"self.params['required']": "list"}}),
    ("object", "MinProperties", "dict_wf(value)", "dict", "(dict,)", {"minProperties": "is_num({p})"},
     "len(value) < num(self.params['minProperties'])", {}),
    ("object", "MaxProperties", "dict_wf(value)", "dict", "(dict,)", {"maxProperties": "is_num({p})"},
     "len(value) > num(self.params['maxProperties'])", {}),
    ("object", "PropertyNames", "dict_wf(value)", "dict", "(dict,)", {"propertyNames": "is_obj({p})"},
     "exists(lambda j: not sem(self.params['propertyNames'], key_at(value, j)), len(value))",
     {"calls": {"self.params['propertyNames']": ECALL},
      "invariants": {1: "forall(lambda j: sem(self.params['propertyNames'], key_at(value, j)), _k)"}}),
    ("object", "Dependencies", "dict_wf(value)", "dict", "(dict,)", {"dependencies": DEPS.replace("self.params['dependencies']", "{p}")},
     f"exists(lambda j: {DEP_BAD}, len(self.params['dependencies']))",
     {"invariants": {1: f"forall(lambda j: not ({DEP_BAD}), _k)"}, "kinds": {"self.params['dependencies']": "dict"}}),
    ("object", "AdditionalProperties", "dict_wf(value)", "dict", "(dict,)",
     {"__properties__": "isinstance({p}, Properties) and props_wf({p})"},
     "not truthy(self.params['__properties__'].additional) and "
     "exists(lambda j: not props_accepts(self.params['__properties__'], key_at(value, j)), len(value))",
     {"kinds": {"self.params['__properties__']": "Properties"}}),
    ("string", "Pattern", "is_str(value)", "str", "(str,)", {"pattern": "is_str({p})"},
     "not re_search(self.params['pattern'], value)", {}),
    ("string", "MinLength", "is_str(value)", "str", "(str,)", {"minLength": "is_num({p})"},
     "len(value) < num(self.params['minLength'])", {}),
    ("string", "MaxLength", "is_str(value)", "str", "(str,)", {"maxLength": "is_num({p})"},
     "len(value) > num(self.params['maxLength'])", {}),
    ("string", "Format", "is_str(value)", "str", "(str,)", {"format": "is_str({p}) and format_reg_wf()"},
     "not format_ok(self.params['format'], value)", {}),
]

PROPS_V = ["C01", "C10", "C08", "C13", "C14"]

# Element well-formedness: every keyword attribute is absent, NotPassed, or of the shape the Draft-6 metaschema gives it
# (this is what the keyword validators require of their parameters)
from pyvc.contracts import macro
_wf = []
for _mod, _K, _vp, _vk, _ts, _kws, _cond, _extra in TABLE:
    if _K == "AdditionalProperties":
        continue
    for _kw, _req in _kws.items():
        _p = f"e.{_kw}"
        if _kw == "additionalItems":      # default True, never NotPassed
            _wf.append(f"(attr_absent(e,'{_kw}') or ({_req.replace('{p}', _p)}))")
            continue
        _wf.append(f"(attr_absent(e,'{_kw}') or is_np({_p}) or ({_req.replace('{p}', _p).replace('{x}', _p)}))")
_wf.append("(attr_absent(e,'additionalProperties') or is_bool(e.additionalProperties) or is_obj(e.additionalProperties))")
_wf.append("(attr_absent(e,'patternProperties') or is_np(e.patternProperties) or (dict_wf(e.patternProperties) and "
           "forall(lambda j: is_obj(val_at(e.patternProperties, j)), len(e.patternProperties))))")
_wf.append("(attr_absent(e,'__properties__') or is_np(e.__properties__) or isinstance(e.__properties__, Properties))")
_wf.append("(attr_absent(e,'const') or is_np(e.const) or is_json(e.const))")
_wf.append("(attr_absent(e,'enum') or is_np(e.enum) or (is_json(e.enum) and is_list(e.enum)))")
_wf.append("(attr_absent(e,'uniqueItems') or is_np(e.uniqueItems) or is_bool(e.uniqueItems))")
_wf.append("(attr_absent(e,'properties') or is_np(e.properties) or is_none(e.properties) or (isinstance(e.properties, _PropertyDict) and "
           + STRLIST.replace("{x}", "e.properties.required") + "))")
_seen = []
for _c in _wf:
    if _c not in _seen:
        _seen.append(_c)
# `required` may also be None on the way in (getattr default)
macro("elem_wf", ["e"], " and ".join(_seen).replace("(attr_absent(e,'required') or is_np(e.required) or",
                                                      "(attr_absent(e,'required') or is_np(e.required) or is_none(e.required) or"))


def params_req(kws):
    parts = ["dict_wf(self.params)"]
    for kw, req in kws.items():
        p = f"self.params['{kw}']"
        parts.append(f"has(self.params,'{kw}')")
        parts.append(req.replace("{p}", p).replace("{x}", p))
    return " and ".join(parts)


def applies(types_src):
    # _is_instance: a bool only counts when bool is listed
    return f"((not is_bool(value)) or (bool in {types_src})) and isinstance(value, {types_src})"


PROPERTY_OK = "is_obj(property_) and not attr_absent(property_, 'name') and not attr_absent(property_, 'parent')"

for mod, K, vpred, vkind, types_src, kws, cond, extra in TABLE:
    M = f"statham.schema.validation.{mod}:"
    preq = params_req(kws)
    props = list(PROPS_V) + (["C16"] if K == "Format" else [])
    kinds = dict(extra.get("kinds", {}))
    if vkind:
        kinds["value"] = vkind
    contract(M + f"{K}._validate", requires=f"{vpred} and {preq}", raises=[("ValidationError", cond)],
             calls=extra.get("calls"), invariants=extra.get("invariants"), kinds=kinds, props=props,
             bounded_only=extra.get("bounded_only", False),
             note="binary64 arithmetic (value / multipleOf, int(), %) is outside the exact-rational float model: checked by the runtime monitor over a numeric pool only" if extra.get("bounded_only") else "")
    # the inherited __call__, instantiated for K: type guard + _validate by contract
    extra_v = " and forall(lambda j: not is_np(value[j]), len(value))" if K == "Contains" else ""
    vwf = "is_json(value)" + \
          (" and (not is_list(value) or forall(lambda j: not is_np(value[j]), len(value)))" if K == "Contains" else "")
    contract(BASE + "Validator.__call__", inst=K,
             requires=f"{preq} and {PROPERTY_OK} and {vwf}",
             raises=[("ValidationError", f"({applies(types_src)}) and ({cond})")],
             props=props)
    if K not in ("Pattern", "AdditionalProperties"):
        contract(BASE + "Validator.error_message", inst=K, requires=preq, returns="is_str(result)",
                 result_kind="str", props=["C10"])

# special error_message overrides
contract("statham.schema.validation.string:Pattern.error_message", requires=params_req({"pattern": "is_str({p})"}),
         returns="is_str(result)", result_kind="str", props=["C10"])

contract("statham.schema.validation.object:AdditionalProperties.error_message",
         requires=params_req({"__properties__": "isinstance({p}, Properties)"}),
         returns="is_str(result)", result_kind="str", kinds={"self.params['__properties__']": "Properties"}, props=["C10"])

contract("statham.schema.exceptions:_display", requires="True", returns="is_str(result)", result_kind="str", props=["C10"],
         note="repr(value), or a placeholder when repr raises ValueError (the interpreter's int-to-str digit limit is not modelled: bounded-checked in C10)")

contract("statham.schema.exceptions:ValidationError.from_validator",
         requires=PROPERTY_OK, returns="True", result_cls="ValidationError", props=["C10"])

contract(BASE + "_is_instance",
         requires="is_tuple(type_args) and forall(lambda j: is_cls(type_args[j]), len(type_args))",
         returns="result is ((bool in type_args) if is_bool(value) else isinstance(value, type_args))",
         ghost={"function": "(bool in type_args) if is_bool(value) else isinstance(value, type_args)"},
         result_kind="bool", kinds={"type_args": "tuple"}, props=["C01", "C16", "C10"])

# ---- Validator.from_element, instantiated per keyword validator class: None iff some keyword is missing/NotPassed on the
# element, else a K whose params map each keyword to the element's attribute
FE_PROPS = ["C01", "C08", "C13", "C14", "C15"]
for mod, K, vpred, vkind, types_src, kws, cond, extra in TABLE:
    if K == "Required":
        continue          # Required overrides from_element (contracts/validation_object.py)
    names = list(kws)
    missing = " or ".join(f"(attr_absent(element,'{k}') or is_np(element.{k}))" for k in names)
    # __properties__ is a computed property (a fresh Properties object per access): only its class is promised
    same = (lambda k: f"isinstance(result.params['{k}'], Properties)") if K == "AdditionalProperties" else (lambda k: f"result.params['{k}'] is element.{k}")
    params = " and ".join([f"dict_wf(result.params) and len(result.params) == {len(names)}"] +
                          [f"has(result.params,'{k}') and {same(k)}" for k in names])
    req = "is_obj(element) or is_cls(element)"
    if K == "AdditionalProperties":
        req = "(" + req + ") and (attr_absent(element,'__properties__') or is_np(element.__properties__) or isinstance(element.__properties__, Properties))"
    contract(BASE + "Validator.from_element", inst=K, requires=req,
             returns=f"(result is None) == ({missing}) and implies(result is not None, type_is(result, {K}) and {params})",
             props=FE_PROPS)

for K, names in (("Const", ["const"]), ("Enum", ["enum"]), ("UniqueItems", ["uniqueItems"])):
    missing = " or ".join(f"(attr_absent(element,'{k}') or is_np(element.{k}))" for k in names)
    params = " and ".join([f"dict_wf(result.params) and len(result.params) == {len(names)}"] +
                          [f"has(result.params,'{k}') and result.params['{k}'] is element.{k}" for k in names])
    contract(BASE + "Validator.from_element", inst=K, requires="is_obj(element) or is_cls(element)",
             returns=f"(result is None) == ({missing}) and implies(result is not None, type_is(result, {K}) and {params})",
             props=FE_PROPS)

# UniqueItems overrides from_element: uniqueItems false means "no validator"
contract("statham.schema.validation.array:UniqueItems.from_element", requires="is_obj(element) or is_cls(element)",
         returns="(result is None) == (attr_absent(element,'uniqueItems') or is_np(element.uniqueItems) or element.uniqueItems is False) and "
                 "implies(result is not None, type_is(result, UniqueItems) and dict_wf(result.params) and result.params['uniqueItems'] is element.uniqueItems)",
         props=FE_PROPS)
