"""Contracts: statham/serializers/json.py."""
from pyvc.contracts import contract

J = "statham.serializers.json:"

contract(J + "_serialize_recursive", requires="True", returns="True", trusted=True, props=["C03"],
         note="recursion over the assembled dict (isinstance dispatch, $ref substitution): bounded-checked in C03")

# C03 clauses of _serialize_element, stated where the assembled keyword dict is handed to the recursive serialiser:
#  * `properties` is keyed by JSON names (each key is the source of the property stored under it)
#  * `required` holds the explicit required names and the JSON names of required properties
PD = "obj_dict(element.properties)"
HAS_PROPS = f"(not attr_absent(element,'properties') and not is_np(element.properties) and len({PD}) > 0)"
REACH = [
    # every declared property appears under its JSON name
    ("return _serialize_recursive(", f"implies({HAS_PROPS}, has(schema,'properties') and forall(lambda j: has(schema['properties'], val_at({PD}, j).source), len({PD})))"),
    # every required property's JSON name is listed
    ("return _serialize_recursive(", f"implies({HAS_PROPS}, forall(lambda j: implies(truthy(val_at({PD}, j).required), has(schema,'required') and "
                                     f"exists(lambda q: schema['required'][q] == val_at({PD}, j).source, len(schema['required']))), len({PD})))"),
    # the element's own required list survives
    ("return _serialize_recursive(", "implies(not attr_absent(element,'required') and is_list(element.required) and len(element.required) > 0, has(schema,'required') and "
                                     "len(schema['required']) >= len(element.required) and forall(lambda i: schema['required'][i] is element.required[i], len(element.required)))"),
    # a default is carried exactly when the element has one
    ("return _serialize_recursive(", "implies(not attr_absent(element,'default') and not is_np(element.default), has(schema,'default') and schema['default'] is element.default)"),
    ("return _serialize_recursive(", "implies(has(schema,'default'), not is_np(element.default))"),
]
# every other keyword attribute that differs from the constructor default is carried under its own name, unchanged
_NP_KW = ["const", "enum", "items", "minItems", "maxItems", "contains", "minimum", "maximum", "exclusiveMinimum", "exclusiveMaximum", "multipleOf", "format", "pattern",
          "minLength", "maxLength", "patternProperties", "minProperties", "maxProperties", "propertyNames", "dependencies", "description"]
for _k in _NP_KW:
    REACH.append(("return _serialize_recursive(", f"implies(not attr_absent(element,'{_k}') and not is_np(element.{_k}), has(schema,'{_k}') and schema['{_k}'] is element.{_k})"))
for _k, _d in (("additionalItems", "True"), ("additionalProperties", "True"), ("uniqueItems", "False")):
    REACH.append(("return _serialize_recursive(", f"implies(not attr_absent(element,'{_k}') and element.{_k} is not {_d} and (is_obj(element.{_k}) or is_bool(element.{_k})), has(schema,'{_k}') and schema['{_k}'] is element.{_k})"))
for K in ["Element", "String", "Integer", "Array"]:
    contract(J + "_serialize_element", inst=K,
             requires=f"type_is(element, {K}) and elem_wf(element) and bound(element)",
             returns="True", kinds={"element": "=" + K, "prop": "_Property"},
             ghost={"reach": REACH}, lemmas=["MEM-EX"],
             props=["C03", "C06", "C07"])
