"""Contracts: statham/schema/validation/array.py (Draft-6 validation 6.9-6.14)."""
from pyvc.contracts import contract

M = "statham.schema.validation.array:"
P = "is_list(value) and dict_wf(self.params) and "
ECALL = "statham.schema.elements.base:Element.__call__"

contract(M + "MinItems._validate", requires=P + "has(self.params,'minItems') and is_num(self.params['minItems'])",
         raises=[("ValidationError", "len(value) < num(self.params['minItems'])")], props=["C01", "C10", "C08"])
contract(M + "MaxItems._validate", requires=P + "has(self.params,'maxItems') and is_num(self.params['maxItems'])",
         raises=[("ValidationError", "len(value) > num(self.params['maxItems'])")], props=["C01", "C10", "C08"])
contract(M + "AdditionalItems._validate",
         requires=P + "has(self.params,'items') and has(self.params,'additionalItems') and "
                      "(is_list(self.params['items']) or is_obj(self.params['items'])) and "
                      "(is_bool(self.params['additionalItems']) or is_obj(self.params['additionalItems']))",
         raises=[("ValidationError", "is_list(self.params['items']) and len(value) > len(self.params['items'])"
                                     " and not truthy(self.params['additionalItems'])")],
         props=["C01", "C10", "C08"])
contract(M + "Contains._validate",
         requires=P + "has(self.params,'contains') and is_obj(self.params['contains']) and "
                      "forall(lambda j: not is_np(value[j]), len(value))",
         raises=[("ValidationError", "forall(lambda j: not sem(self.params['contains'], value[j]), len(value))")],
         calls={"self.params['contains']": ECALL},
         invariants={1: "forall(lambda j: not sem(self.params['contains'], _seq[j]), _k)"},
         kinds={"value": "list"},
         props=["C01", "C10", "C08"])
