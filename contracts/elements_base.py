"""Contracts: statham/schema/elements/base.py."""
from pyvc.contracts import contract

E = "statham.schema.elements.base:"

# the properties setter: NotPassed is stored as is; anything else is wrapped in a fresh _PropertyDict bound to self
contract(E + "Element.properties@setter",
         requires="is_np(value) or is_dict(value) or isinstance(value, _PropertyDict)",
         returns="implies(is_np(value), self._properties is value) and implies(not is_np(value), isinstance(self._properties, _PropertyDict))",
         modifies=["self", "value"], props=["C08", "C13", "C15"], trusted=True,
         note="binds the passed properties to self (writes their name/source/parent): covered by the bounded reconfiguration histories; _PropertyDict.__init__ iterates a dict subclass under construction (outside the subset)")
