"""Contracts: statham/schema/elements/base.py."""
from pyvc.contracts import contract

E = "statham.schema.elements.base:"

# the properties setter: NotPassed is stored as is; anything else is wrapped in a fresh _PropertyDict bound to self
from pyvc.contracts import contract as _c
contract(E + "Element.properties@setter",
         requires="is_np(value) or is_dict(value) or isinstance(value, _PropertyDict)",
         returns="implies(is_np(value), self._properties is value) and implies(not is_np(value), isinstance(self._properties, _PropertyDict))",
         modifies=["self", "value"], props=["C08", "C13", "C15"], trusted=True,
         note="binds the passed properties to self (writes their name/source/parent): covered by the bounded reconfiguration histories; _PropertyDict.__init__ iterates a dict subclass under construction (outside the subset)")

V = "statham.schema.validation:"
ELEM_OK = "isinstance(element, Element) or is_cls(element)"

# get_validators: which keyword validators an element gets.  For every keyword-validator class K (all subclasses of Validator
# except the two type validators): the list holds a K built from the element's keyword values iff all of K's keywords are set
# on the element; every member is such a K (nothing else gets in).  Membership form (lemma IS-MEM); order is not promised
# (the classes are enumerated from a set: C09's concern).
from contracts.validators import TABLE as _VT
_GV = []
def _missing(names, who="element"):
    return " or ".join(f"(attr_absent({who},'{k}') or is_np({who}.{k}))" for k in names)
_KCLASSES = []
for _mod, _K, _vp, _vk, _ts, _kws, _cond, _extra in _VT:
    names = list(_kws)
    if _K == "Required":
        present = "len(eff_required(element)) != 0"
        params = "has(m.params,'required') and m.params['required'] is eff_required(element)"
    elif _K == "AdditionalProperties":
        present = "not (" + _missing(names) + ")"
        params = "has(m.params,'__properties__') and isinstance(m.params['__properties__'], Properties)"
    else:
        present = "not (" + _missing(names) + ")"
        params = " and ".join(f"has(m.params,'{k}') and m.params['{k}'] is element.{k}" for k in names)
    _GV.append((_K, present, params))
for _K, names in (("Const", ["const"]), ("Enum", ["enum"])):
    _GV.append((_K, "not (" + _missing(names) + ")", " and ".join(f"has(m.params,'{k}') and m.params['{k}'] is element.{k}" for k in names)))
_GV.append(("UniqueItems", "not (attr_absent(element,'uniqueItems') or is_np(element.uniqueItems) or element.uniqueItems is False)",
            "has(m.params,'uniqueItems') and m.params['uniqueItems'] is element.uniqueItems"))
GV_POST = " and ".join(
    [f"implies({present}, some_member(result, lambda m: type_is(m, {K}) and dict_wf(m.params) and {params}))" for K, present, params in _GV] +
    [f"all_members(result, lambda m: implies(type_is(m, {K}), ({present}) and dict_wf(m.params) and {params}))" for K, present, params in _GV] +
    ["all_members(result, lambda m: " + " or ".join(f"type_is(m, {K})" for K, _, _ in _GV) + ")"])
GV_REQ = ("(attr_absent(element,'properties') or is_np(element.properties) or is_none(element.properties) or (isinstance(element.properties, _PropertyDict) and "
          "is_list(element.properties.required) and forall(lambda j: is_str(element.properties.required[j]), len(element.properties.required)))) and "
          "(attr_absent(element,'__properties__') or is_np(element.__properties__) or isinstance(element.__properties__, Properties))")
contract(V + "get_validators", requires="is_obj(element) and elem_wf(element)",
         returns="is_list(result) and all_members(result, lambda m: isinstance(m, Validator)) and " + GV_POST,
         result_kind="list", ghost={"result_fresh": True},
         props=["C01", "C08", "C13", "C14", "C09"])

B = "statham.schema.validation.base:"
PROPERTY_OK = "is_obj(property_) and not attr_absent(property_, 'name') and not attr_absent(property_, 'parent')"

# the caller's view of any validator call (dynamic dispatch on an unknown validator class): the per-class contracts
# Validator.__call__[K] (contracts/validators.py, validation_base.py) are what is verified
contract(B + "Validator.__call__", requires=PROPERTY_OK, raises=[("ValidationError", "vrejects(self, value)")],
         trusted=True, props=["C01"], note="caller's view under dynamic dispatch; verified per concrete class as Validator.__call__[K]")

INST_CLASSES = ["Element", "String", "Integer", "Number", "Boolean", "Null", "Array", "Not", "AnyOf", "OneOf", "AllOf"]
TYPES = {"Element": "()", "Not": "()", "AnyOf": "()", "OneOf": "()", "AllOf": "()", "String": "(str,)", "Integer": "(int,)",
         "Number": "(float, int)", "Boolean": "(bool,)", "Null": "(NoneType,)", "Array": "(list,)"}
MODS = {"Element": "base", "String": "string", "Integer": "numeric", "Number": "numeric", "Boolean": "boolean", "Null": "null", "Array": "array"}
for K in ["Element", "String", "Integer", "Number", "Boolean", "Null", "Array"]:
    contract(f"statham.schema.elements.{MODS[K]}:{K}.type_validator", requires="True",
             returns=f"type_is(result, InstanceOf) and dict_wf(result.params) and has(result.params,'types') and result.params['types'] is {TYPES[K]}",
             ghost={"result_fresh": True}, props=["C01", "C08", "C13"])

# Element.validators per class: the class's type validator (InstanceOf over exactly TYPES[K]) plus the keyword validators of
# get_validators -- membership form, same clauses with `self` for `element`
def _val_post(K):
    sub = lambda t: t.replace("element", "self")
    cl = [f"implies({sub(present)}, some_member(result, lambda m: type_is(m, {C}) and dict_wf(m.params) and {sub(params)}))" for C, present, params in _GV]
    cl += [f"all_members(result, lambda m: implies(type_is(m, {C}), ({sub(present)}) and dict_wf(m.params) and {sub(params)}))" for C, present, params in _GV]
    cl += ["all_members(result, lambda m: type_is(m, InstanceOf) or " + " or ".join(f"type_is(m, {C})" for C, _, _ in _GV) + ")"]
    cl += [f"some_member(result, lambda m: type_is(m, InstanceOf) and dict_wf(m.params) and has(m.params,'types') and m.params['types'] is {TYPES[K]})",
           f"all_members(result, lambda m: implies(type_is(m, InstanceOf), dict_wf(m.params) and has(m.params,'types') and m.params['types'] is {TYPES[K]}))"]
    return " and ".join(cl)
# The validators of an element accept a value exactly when every keyword clause holds: for each validator class C, if C's
# keywords are set on the element then the raise condition of the verified contract Validator.__call__[C] -- with the element's
# keyword values for the validator's params -- is false, and the class's type clause holds.  (Composition of: membership
# characterisation above, VREJ[C].)  AdditionalProperties keeps its validator abstract (its Properties object is built per access).
import re as _re
import contracts.validation_base  # noqa: registers Const/Enum/UniqueItems/InstanceOf call contracts
from pyvc.contracts import REG as _REG
_VCALL = "statham.schema.validation.base:Validator.__call__"
def _clause_for(C, present, K):
    c = _REG[(_VCALL, C)]
    cond = " or ".join(f"({x})" for _, x in c.raises)
    cond = _re.sub(r"\bvalue\b", "x", cond)
    if C == "Required":
        cond = cond.replace("self.params['required']", "eff_required(self)")
    else:
        cond = _re.sub(r"self\.params\['(\w+)'\]", r"self.\1", cond)
    return f"implies({present.replace('element', 'self')}, not ({cond}))"
def _d6v_clauses(K):
    cl = []
    for C, present, params in _GV:
        if C == "AdditionalProperties":
            cl.append("all_members(result, lambda m: implies(type_is(m, AdditionalProperties), not vrejects(m, x)))")
        else:
            cl.append(_clause_for(C, present, K))
    tcond = _re.sub(r"\bvalue\b", "x", _REG[(_VCALL, "InstanceOf")].raises[0][1]).replace("self.params['types']", TYPES[K])
    cl.append(f"not ({tcond})")
    return cl
def _d6v_post(K):
    cl = _d6v_clauses(K)
    fwd = [f"forall_v(lambda x: implies(is_json(x) and accepts_all(result, x), {c}))" for c in cl]
    bwd = "forall_v(lambda x: implies(is_json(x) and " + " and ".join(f"({c})" for c in cl) + ", accepts_all(result, x)))"
    return " and ".join(fwd + [bwd])
for K in INST_CLASSES:
    contract(E + "Element.validators", inst=K, requires="elem_wf(self) and " + GV_REQ.replace("element", "self"),
             returns="is_list(result) and all_members(result, lambda m: isinstance(m, Validator)) and len(result) >= 1 and type_is(result[0], InstanceOf) and " + _val_post(K)
                     ,
             result_kind="list", ghost={"result_fresh": True}, props=["C01", "C08", "C13", "C14", "C17", "C18"],
             assume=["result is validators_of(self)"])

contract(E + "Nothing.validators", requires="True",
         returns="is_list(result) and len(result) == 1 and type_is(result[0], NoMatch)", result_kind="list", ghost={"result_fresh": True},
         props=["C01", "C08"])

ITEMS = "statham.schema.elements.items:"
PROPS = "statham.schema.elements.properties:"

for K in ["Element", "String", "Integer", "Number", "Boolean", "Null", "Array", "Not", "AnyOf", "OneOf", "AllOf"]:
    contract(E + "Element.__items__", inst=K, requires="elem_wf(self)",
             returns="type_is(result, Items) and items_wf(result)", ghost={"result_fresh": True}, result_cls="Items",
             props=["C01", "C04", "C08", "C13", "C14"])

# bound(E): every declared property is bound under its key to E and has a JSON name
macro_src = ("(attr_absent(e,'properties') or is_np(e.properties) or (isinstance(e.properties, _PropertyDict) and dict_wf(obj_dict(e.properties)) and "
             "forall(lambda j: isinstance(val_at(obj_dict(e.properties), j), _Property) and not attr_absent(val_at(obj_dict(e.properties), j),'element') and "
             "is_obj(val_at(obj_dict(e.properties), j).element) and "
             "not attr_absent(val_at(obj_dict(e.properties), j),'required') and val_at(obj_dict(e.properties), j).name is key_at(obj_dict(e.properties), j) and "
             "is_str(val_at(obj_dict(e.properties), j).source) and val_at(obj_dict(e.properties), j).parent is e, len(obj_dict(e.properties)))))")
from pyvc.contracts import macro
macro("bound", ["e"], macro_src)

for K in ["Element", "String", "Integer", "Number", "Boolean", "Null", "Array", "Not", "AnyOf", "OneOf", "AllOf"]:
    contract(E + "Element.__properties__", inst=K, requires="elem_wf(self) and bound(self)",
             returns="type_is(result, Properties) and result.element is self and props_wf(result)", ghost={"result_fresh": True}, result_cls="Properties",
             props=["C01", "C04", "C05", "C08", "C13", "C14"])

CALL_REQ = ("elem_wf(self) and bound(self) and (is_json(value) or is_np(value)) and "
            "(property_ is None or (isinstance(property_, _Property) and not attr_absent(property_,'name') and not attr_absent(property_,'parent') and "
            "not attr_absent(property_,'element') and not attr_absent(property_,'required') and not attr_absent(property_,'source') and "
            "(is_none(property_.name) or is_str(property_.name))))")
CONS_REQ = ("elem_wf(self) and bound(self) and is_json(value) and isinstance(property_, _Property) and not attr_absent(property_,'name') and "
            "not attr_absent(property_,'parent') and not attr_absent(property_,'element') and not attr_absent(property_,'required') and "
            "not attr_absent(property_,'source') and (is_none(property_.name) or is_str(property_.name))")

for K in ["Element", "String", "Integer", "Boolean", "Null", "Array"]:
    contract(E + "Element.construct", inst=K, requires=CONS_REQ,
             returns="implies(not is_list(value) and not is_dict(value), result is value)",
             may_raise=[(("ValidationError", "TypeError"), "is_list(value) or is_dict(value)")],
             ghost={"defines_raise": "not csem(self, value)"}, assume=["result is cbuild(self, value)"],
             lemmas=["DICT-ITEM"],
             props=["C01", "C04", "C08", "C10", "C13", "C14"])

# Element.__call__ per class.  C05's clause in full: with no value, the (non-NotPassed) default is converted exactly as if it
# had been supplied when the element accepts it, and returned as is when it does not -- never an error; NotPassed when there is
# no default.  With a value: every validator of the element is run (if the call returns, all of them accepted); for the scalar
# classes construct is the identity, so the call raises iff some validator rejects, and returns the value itself.
DEFAULT_CLAUSE = ("implies(is_np(value) and is_np(self.default), result is value) and "
                  "implies(is_np(value) and not is_np(self.default), result is (build(self, self.default) if sem(self, self.default) else self.default))")
CALL_INV = {1: "all_members(prefix(_seq, _k), lambda m: not vrejects(m, value))"}
for K in ["Element", "String", "Integer", "Boolean", "Null", "Array"]:
    contract(E + "Element.__call__", inst=K, requires=CALL_REQ + " and not attr_absent(self,'default') and (is_np(self.default) or is_json(self.default))",
             returns=DEFAULT_CLAUSE + " and implies(not is_np(value), result is build(self, value))",
             raises=[(("ValidationError", "TypeError"), "not is_np(value) and not sem(self, value)")],
             kinds={"validator": "Validator"}, lemmas=["DICT-ITEM"], invariants=CALL_INV,
             props=["C01", "C04", "C05", "C08", "C10", "C13", "C14"])
