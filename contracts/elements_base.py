"""Contracts: statham/schema/elements/base.py."""
from pyvc.contracts import contract

E = "statham.schema.elements.base:"

# the properties setter: NotPassed is stored as is; anything else is wrapped in a fresh _PropertyDict bound to self
from pyvc.contracts import contract as _c
contract(E + "Element.properties@setter",
         requires="is_np(value) or is_dict(value) or isinstance(value, _PropertyDict)",
         returns="implies(is_np(value), self._properties is value) and implies(not is_np(value), isinstance(self._properties, _PropertyDict))",
         modifies=["self", "value"], props=["C08", "C13", "C15"], trusted=True,
         note="binds the passed properties to self (writes their name/source/parent): covered by the bounded reconfiguration histories; _PropertyDict.__init__ iterates a dict subclass under construction (outside the subset)")

V = "statham.schema.validation:"
ELEM_OK = "isinstance(element, Element) or is_cls(element)"

contract(V + "get_validators", requires="is_obj(element) and elem_wf(element)",
         returns="is_list(result) and forall(lambda j: isinstance(result[j], Validator), len(result))",
         result_kind="list", ghost={"result_fresh": True},
         props=["C01", "C08", "C13", "C14", "C09"])

B = "statham.schema.validation.base:"
PROPERTY_OK = "is_obj(property_) and not attr_absent(property_, 'name') and not attr_absent(property_, 'parent')"

# the caller's view of any validator call (dynamic dispatch on an unknown validator class): the per-class contracts
# Validator.__call__[K] (contracts/validators.py, validation_base.py) are what is verified
contract(B + "Validator.__call__", requires=PROPERTY_OK, raises=[("ValidationError", "vrejects(self, value)")],
         trusted=True, props=["C01"], note="caller's view under dynamic dispatch; verified per concrete class as Validator.__call__[K]")

INST_CLASSES = ["Element", "String", "Integer", "Number", "Boolean", "Null", "Array", "Not", "AnyOf", "OneOf", "AllOf"]
TYPES = {"Element": "()", "Not": "()", "AnyOf": "()", "OneOf": "()", "AllOf": "()", "String": "(str,)", "Integer": "(int,)",
         "Number": "(float, int)", "Boolean": "(bool,)", "Null": "(NoneType,)", "Array": "(list,)"}
MODS = {"Element": "base", "String": "string", "Integer": "numeric", "Number": "numeric", "Boolean": "boolean", "Null": "null", "Array": "array"}
for K in ["Element", "String", "Integer", "Number", "Boolean", "Null", "Array"]:
    contract(f"statham.schema.elements.{MODS[K]}:{K}.type_validator", requires="True",
             returns=f"type_is(result, InstanceOf) and dict_wf(result.params) and has(result.params,'types') and result.params['types'] is {TYPES[K]}",
             ghost={"result_fresh": True}, props=["C01", "C08", "C13"])

for K in INST_CLASSES:
    contract(E + "Element.validators", inst=K, requires="elem_wf(self)",
             returns="is_list(result) and forall(lambda j: isinstance(result[j], Validator), len(result)) and len(result) >= 1 and type_is(result[0], InstanceOf)",
             result_kind="list", ghost={"result_fresh": True}, props=["C01", "C08", "C13", "C14", "C17", "C18"])

contract(E + "Nothing.validators", requires="True",
         returns="is_list(result) and len(result) == 1 and type_is(result[0], NoMatch)", result_kind="list", ghost={"result_fresh": True},
         props=["C01", "C08"])

ITEMS = "statham.schema.elements.items:"
PROPS = "statham.schema.elements.properties:"

for K in ["Element", "String", "Integer", "Number", "Boolean", "Null", "Array", "Not", "AnyOf", "OneOf", "AllOf"]:
    contract(E + "Element.__items__", inst=K, requires="elem_wf(self)",
             returns="type_is(result, Items) and items_wf(result)", ghost={"result_fresh": True}, result_cls="Items",
             props=["C01", "C04", "C08", "C13", "C14"])

# bound(E): every declared property is bound under its key to E and has a JSON name
macro_src = ("(attr_absent(e,'properties') or is_np(e.properties) or (isinstance(e.properties, _PropertyDict) and dict_wf(obj_dict(e.properties)) and "
             "forall(lambda j: isinstance(val_at(obj_dict(e.properties), j), _Property) and not attr_absent(val_at(obj_dict(e.properties), j),'element') and "
             "is_obj(val_at(obj_dict(e.properties), j).element) and "
             "not attr_absent(val_at(obj_dict(e.properties), j),'required') and val_at(obj_dict(e.properties), j).name is key_at(obj_dict(e.properties), j) and "
             "is_str(val_at(obj_dict(e.properties), j).source) and val_at(obj_dict(e.properties), j).parent is e, len(obj_dict(e.properties)))))")
from pyvc.contracts import macro
macro("bound", ["e"], macro_src)

for K in ["Element", "String", "Integer", "Number", "Boolean", "Null", "Array", "Not", "AnyOf", "OneOf", "AllOf"]:
    contract(E + "Element.__properties__", inst=K, requires="elem_wf(self) and bound(self)",
             returns="type_is(result, Properties) and result.element is self and props_wf(result)", ghost={"result_fresh": True}, result_cls="Properties",
             props=["C01", "C04", "C05", "C08", "C13", "C14"])

CALL_REQ = ("elem_wf(self) and bound(self) and (is_json(value) or is_np(value)) and "
            "(property_ is None or (isinstance(property_, _Property) and not attr_absent(property_,'name') and not attr_absent(property_,'parent') and "
            "not attr_absent(property_,'element') and not attr_absent(property_,'required') and not attr_absent(property_,'source') and "
            "(is_none(property_.name) or is_str(property_.name))))")
CONS_REQ = ("elem_wf(self) and bound(self) and is_json(value) and isinstance(property_, _Property) and not attr_absent(property_,'name') and "
            "not attr_absent(property_,'parent') and not attr_absent(property_,'element') and not attr_absent(property_,'required') and "
            "not attr_absent(property_,'source') and (is_none(property_.name) or is_str(property_.name))")

for K in ["Element", "String", "Integer", "Boolean", "Null", "Array"]:
    contract(E + "Element.construct", inst=K, requires=CONS_REQ,
             returns="implies(not is_list(value) and not is_dict(value), result is value)",
             may_raise=[(("ValidationError", "TypeError"), "is_list(value) or is_dict(value)")],
             lemmas=["DICT-ITEM"],
             props=["C01", "C04", "C08", "C10", "C13", "C14"])

for K in ["Element", "String", "Integer", "Boolean", "Null", "Array"]:
    contract(E + "Element.__call__", inst=K, requires=CALL_REQ + " and not attr_absent(self,'default') and (is_np(self.default) or is_json(self.default))",
             returns="implies(is_np(value) and is_np(self.default), result is value)",
             may_raise=[(("ValidationError", "TypeError"), "not is_np(value)")],
             kinds={"validator": "Validator"}, lemmas=["DICT-ITEM"],
             props=["C01", "C04", "C05", "C08", "C10", "C13", "C14"])
