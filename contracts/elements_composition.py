"""Contracts: statham/schema/elements/composition.py."""
from pyvc.contracts import contract
from contracts.validators import PROPERTY_OK

C = "statham.schema.elements.composition:"
ECALL = "statham.schema.elements.base:Element.__call__"
X = "statham.schema.exceptions:"

contract(X + "ValidationError.combine", requires=PROPERTY_OK + " and is_list(exceptions)", returns="True",
         result_cls="ValidationError", props=["C10"], trusted=True,
         note="message construction only (str/replace/join); returns a ValidationError")
contract(X + "ValidationError.multiple_composition_match", requires="True", returns="True", result_cls="ValidationError",
         props=["C10"], trusted=True, note="message construction only")

# verified against the attribute-level clause; callers use the functional view outcome_of(element, value), whose axioms
# (spec/mod_outcome.smt2) say exactly the same thing about target/result/error
contract(C + "_attempt_schema", requires="is_obj(element) and not is_np(value)",
         returns="result.target is element and (result.error is None) == sem(element, value) and "
                 "implies(sem(element, value), result.result is build(element, value)) and "
                 "implies(not sem(element, value), result.result is None and is_obj(result.error))",
         ghost={"function": "outcome_of(element, value)"},
         calls={"element": ECALL}, props=["C01", "C04", "C08", "C10"])

ACC = "sem(elements[{i}], value)"
N = "len(elements)"
NONE_ACC = f"forall(lambda i: not {ACC.format(i='i')}, {N})"
TWO_ACC = f"exists(lambda a: exists(lambda b: a != b and {ACC.format(i='a')} and {ACC.format(i='b')}, {N}), {N})"
SOME_REJ = f"exists(lambda i: not {ACC.format(i='i')}, {N})"
contract(C + "_attempt_schemas",
         requires="is_list(elements) and forall(lambda j: is_obj(elements[j]), len(elements)) and not is_np(value) and "
                  "(mode == 'anyOf' or mode == 'oneOf' or mode == 'allOf') and " + PROPERTY_OK,
         raises=[("ValidationError", f"({NONE_ACC}) or (mode == 'oneOf' and {TWO_ACC}) or (mode == 'allOf' and {SOME_REJ})")],
         returns=f"exists(lambda k: {ACC.format(i='k')} and forall(lambda i: not {ACC.format(i='i')}, k) and result is build(elements[k], value), {N})",
         kinds={"elements": "list", "mode": "str"}, ghost={"filter_facts": "index"},
         props=["C01", "C04", "C08", "C10", "C19"])

contract(C + "Not.construct",
         requires="not attr_absent(self,'element') and is_obj(self.element) and not is_np(value) and " + PROPERTY_OK,
         returns="result is value",
         raises=[("ValidationError", "sem(self.element, value)")],
         calls={"self.element": ECALL}, props=["C01", "C04", "C08", "C10"])
