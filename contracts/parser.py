"""Contracts: statham/schema/parser.py."""
from pyvc.contracts import contract

PA = "statham.schema.parser:"

from pyvc.contracts import macro
_SUB = "(is_bool({s}) or isinstance({s}, Element) or dict_wf({s}))"
macro("schema_ok", ["s"], " and ".join(
    [f"(not has(s,'{k}') or {_SUB.format(s=chr(115) + chr(91) + repr(k) + chr(93))})" for k in ("contains", "propertyNames", "additionalProperties", "additionalItems", "not")]
    + ["(not has(s,'default') or is_json(s['default']))", "(not has(s,'const') or is_json(s['const']))", "(not has(s,'enum') or is_json(s['enum']))"]))

# C20: a schema dict carrying a documented-unsupported keyword at its own level is refused before anything else happens.
# (partial: the paths that go on to build elements use **kwargs construction and leave the subset; they are reported undecided)
contract(PA + "parse_element",
         requires="is_bool(schema) or isinstance(schema, Element) or (dict_wf(schema) and schema_ok(schema))",
         returns="is_bool(old(schema)) or isinstance(old(schema), Element) or not has_unsupported(old(schema))",
         raises=[("FeatureNotImplementedError", "is_dict(schema) and has_unsupported(schema)")],
         may_raise=[("SchemaParseError", "is_dict(schema)")],
         modifies=["schema", "state"],
         ghost={"partial": True, "reach": [("for literal_key in", "not has_unsupported(old(schema))"),
                                           ("schema['additionalProperties'] =", "not has_unsupported(old(schema))")]},
         props=["C20", "C10", "C07", "C09"])

contract(PA + "_ParseState.__init__", requires="True", returns="dict_wf(self.seen) and len(self.seen) == 0", modifies=["self"],
         trusted=True, props=["C02"], note="collections.defaultdict(list) modelled as an empty mapping")

SUB_OK = "(is_bool({s}) or isinstance({s}, Element) or dict_wf({s}))"
REFUSED = "is_dict({s}) and has_unsupported({s})"
STATE_OK = "(state is None or isinstance(state, _ParseState))"

# one schema position each: the sub-schema is handed to parse_element, so an unsupported keyword there is refused
for fn, key in (("_parse_contains", "contains"), ("_parse_property_names", "propertyNames")):
    s = f"schema['{key}']"
    contract(PA + fn, requires=f"dict_wf(schema) and has(schema,'{key}') and {SUB_OK.format(s=s)} and {STATE_OK}",
             returns=f"not ({REFUSED.format(s='old(' + s + ')')})",
             raises=[("FeatureNotImplementedError", REFUSED.format(s=s))],
             may_raise=[("SchemaParseError", "True")], modifies=["schema", "state"], kinds={"schema": "dict"},
             props=["C20", "C10"])

contract(PA + "_parse_additional",
         requires=f"dict_wf(schema) and is_str(key) and (not has(schema, key) or {SUB_OK.format(s='schema[key]')}) and {STATE_OK}",
         returns="not (has(old(schema), key) and " + REFUSED.format(s="old(schema[key])") + ")",
         raises=[("FeatureNotImplementedError", "has(schema, key) and " + REFUSED.format(s="schema[key]"))],
         may_raise=[("SchemaParseError", "True")], modifies=["schema", "state"], kinds={"key": "str", "schema": "dict"},
         props=["C20", "C10"])
for fn, key in (("_parse_additional_properties", "additionalProperties"), ("_parse_additional_items", "additionalItems")):
    s = f"schema['{key}']"
    contract(PA + fn, requires=f"dict_wf(schema) and (not has(schema,'{key}') or {SUB_OK.format(s=s)}) and {STATE_OK}",
             returns=f"not (has(old(schema),'{key}') and " + REFUSED.format(s="old(" + s + ")") + ")",
             raises=[("FeatureNotImplementedError", f"has(schema,'{key}') and " + REFUSED.format(s=s))],
             may_raise=[("SchemaParseError", "True")], modifies=["schema", "state"], kinds={"schema": "dict"},
             props=["C20", "C10"])

contract(PA + "_parse_literal", requires="is_json(literal)", returns="is_json(result)", props=["C07"],
         ghost={"function": "lit_of(literal)", "function_facts": True, "generalise_comprehension_facts": True}, lemmas=["JSON-INTRO", "DICT-ITEM"],
         note="strips `_x_autotitle` keys at every depth (filtering dict comprehension, recursive); what is stripped is bounded-checked in C07, "
              "the proof is that a JSON literal stays a JSON literal")

contract("statham.schema.exceptions:FeatureNotImplementedError.unsupported_keywords", requires="True", returns="True",
         result_cls="FeatureNotImplementedError", props=["C20"])
contract("statham.schema.exceptions:SchemaParseError.missing_title", requires="True", returns="True", result_cls="SchemaParseError", props=["C10"])
contract("statham.schema.exceptions:SchemaParseError.invalid_type", requires="True", returns="True", result_cls="SchemaParseError", props=["C10"])

# ---- element construction used by the parser's composition logic (C06/C07: what the parser builds for composition keywords)
_KW = ["default", "const", "enum", "items", "additionalItems", "minItems", "maxItems", "uniqueItems", "contains", "minimum", "maximum",
       "exclusiveMinimum", "exclusiveMaximum", "multipleOf", "format", "pattern", "minLength", "maxLength", "required", "patternProperties",
       "additionalProperties", "minProperties", "maxProperties", "propertyNames", "dependencies", "description"]
contract("statham.schema.elements.base:Element.__init__",
         requires="is_np(properties) or is_dict(properties) or isinstance(properties, _PropertyDict)",
         returns=" and ".join(f"self.{k} is {k}" for k in _KW) + " and implies(is_np(properties), self._properties is properties)",
         modifies=["self", "properties"], props=["C06", "C07", "C18"])

for _K in ("AllOf", "AnyOf", "OneOf"):
    contract(PA + "_compose_elements", inst=_K,
             requires="is_list(elements) and forall(lambda j: is_obj(elements[j]), len(elements))",
             returns="implies(len(elements) == 1, result is elements[0]) and "
                     "implies(len(elements) == 0, type_is(result, Element) and is_np(result.default) and is_np(result._properties)) and "
                     f"implies(len(elements) >= 2, type_is(result, {_K}) and is_np(result.default) and is_list(result.elements) and "
                     "len(result.elements) == len(elements) and forall(lambda j: result.elements[j] is elements[j], len(elements)))",
             kinds={"elements": "list", "element_type": "class:" + _K}, ghost={"result_fresh_unless": "len(elements) == 1"},
             props=["C06", "C07", "C20", "C01"])

# dict-valued positions: every dict / boolean value is handed to parse_element, so an unsupported keyword in one of them is refused
_DV = "val_at(schema['{k}'], j)"
for fn, key in (("_parse_pattern_properties", "patternProperties"), ("_parse_dependencies", "dependencies")):
    d = f"schema['{key}']"
    v = _DV.format(k=key)
    refused = f"exists(lambda j: is_dict({v}) and has_unsupported({v}), len({d}))"
    contract(PA + fn,
             requires=f"dict_wf(schema) and has(schema,'{key}') and dict_wf({d}) and {STATE_OK} and "
                      f"forall(lambda j: is_bool({v}) or isinstance({v}, Element) or is_list({v}) or (dict_wf({v}) and schema_ok({v})), len({d}))",
             returns=f"is_dict(result) and not ({refused.replace('schema[', 'old(schema)[')})",
             may_raise=[("SchemaParseError", "True")], modifies=["schema", "state"], kinds={"schema": "dict"}, result_kind="dict",
             props=["C20", "C10"])

_IT = "schema['items']"
_ITJ = "schema['items'][j]"
_SUBJ = f"(is_bool({_ITJ}) or isinstance({_ITJ}, Element) or (dict_wf({_ITJ}) and schema_ok({_ITJ})))"
_ITEMS_REFUSED = (f"((is_dict({_IT}) and has_unsupported({_IT})) or (is_list({_IT}) and exists(lambda j: is_dict({_ITJ}) and has_unsupported({_ITJ}), len({_IT}))))")
contract(PA + "_parse_items",
         requires=f"dict_wf(schema) and {STATE_OK} and (not has(schema,'items') or is_bool({_IT}) or isinstance({_IT}, Element) or (dict_wf({_IT}) and schema_ok({_IT})) or "
                  f"(is_list({_IT}) and forall(lambda j: {_SUBJ}, len({_IT}))))",
         returns="not (has(old(schema),'items') and " + _ITEMS_REFUSED.replace("schema[", "old(schema)[") + ")",
         may_raise=[("SchemaParseError", "True")], modifies=["schema", "state"], kinds={"schema": "dict"},
         props=["C20", "C10"])

_PV = "val_at(schema['properties'], j)"
contract(PA + "_parse_properties",
         requires=f"dict_wf(schema) and {STATE_OK} and (not has(schema,'required') or (is_list(schema['required']) and forall(lambda i: is_str(schema['required'][i]), len(schema['required'])))) and "
                  f"(not has(schema,'properties') or (dict_wf(schema['properties']) and "
                  f"forall(lambda j: is_bool({_PV}) or isinstance({_PV}, _Property) or is_list({_PV}) or (dict_wf({_PV}) and schema_ok({_PV})), len(schema['properties']))))",
         returns="is_dict(result) and not (has(old(schema),'properties') and exists(lambda j: is_dict(" + _PV.replace("schema[", "old(schema)[") + ") and has_unsupported("
                 + _PV.replace("schema[", "old(schema)[") + "), len(old(schema)['properties'])))",
         may_raise=[("SchemaParseError", "True")], modifies=["schema", "state"], kinds={"schema": "dict"}, result_kind="dict",
         props=["C20", "C10"])

contract(PA + "_parse_attribute_name", requires="is_str(name)", returns="is_str(result)", result_kind="str", trusted=True, props=["C12", "C20"],
         note="character-class mapping over all of Unicode (unicodedata, str methods): total on strings and returns a string; what it returns is decided by the "
              "bounded C12 enumeration (every code point alone and in context), not by a proof")
