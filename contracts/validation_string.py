"""Contracts: statham/schema/validation/string.py and format.py (Draft-6 validation 6.6-6.8, 8.3)."""
from pyvc.contracts import contract

M = "statham.schema.validation.string:"
F = "statham.schema.validation.format:"
P = "is_str(value) and dict_wf(self.params) and "

# the register: ghost state = the dict self._callable_register
contract(F + "_FormatString.__call__",
         requires="is_str(format_string) and dict_wf(self._callable_register) and is_str(self.__name__)",
         returns="(result is True) if not has(self._callable_register, format_string) "
                 "else (result is call1(self._callable_register[format_string], value))",
         ghost={"warns": "not has(self._callable_register, format_string)"},
         calls={"self._callable_register[format_string]": "<callable1>"},
         kinds={"self._callable_register": "dict", "format_string": "str"},
         props=["C16", "C01", "C10", "C08"])
contract(F + "_FormatString.register._register_callable",
         requires="is_str(format_string) and dict_wf(self._callable_register)",
         returns="dict_wf(self._callable_register) and self._callable_register[format_string] is is_format and "
                 "forall_keys_unchanged(old(self._callable_register), self._callable_register, format_string)",
         modifies=["self._callable_register", "self"],
         kinds={"self._callable_register": "dict", "format_string": "str"},
         props=["C16"])
