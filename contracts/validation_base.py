"""Contracts: statham/schema/validation/base.py -- replace_bool, Const, Enum, InstanceOf, NoMatch; array.UniqueItems."""
from pyvc.contracts import contract
from contracts.validators import params_req, applies, PROPERTY_OK, PROPS_V

B = "statham.schema.validation.base:"
A = "statham.schema.validation.array:"

contract(B + "replace_bool", requires="is_json(value)", returns="result is rbd(value)",
         ghost={"function": "rbd(value)", "map_function": "rbd"}, props=["C01", "C17", "C08"],
         note="rbd = deep aliasing of booleans; with lemma RB this makes == coincide with Draft-6 equality")

for K, kw, cond, kinds, extra in [
    ("Const", {"const": "is_json({p})"}, "not json_eq(value, self.params['const'])", {}, ["RB"]),
    ("Enum", {"enum": "is_json({p}) and is_list({p})"}, "not member_json(self.params['enum'], value)", {"self.params['enum']": "list"}, ["RB-MEM"]),
]:
    preq = params_req(kw)
    contract(B + f"{K}._validate", requires=f"is_json(value) and {preq}", raises=[("ValidationError", cond)], kinds=kinds, lemmas=extra, props=PROPS_V + ["C17"])
    contract(B + "Validator.__call__", inst=K, requires=f"{preq} and {PROPERTY_OK} and is_json(value)",
             raises=[("ValidationError", cond)], props=PROPS_V)
    contract(B + "Validator.error_message", inst=K, requires=preq, returns="is_str(result)", result_kind="str", props=["C10"])

contract(A + "UniqueItems._validate",
         requires="is_json(value) and is_list(value) and " + params_req({"uniqueItems": "is_bool({p})"}),
         raises=[("ValidationError", "has_dup_json(value)")], kinds={"value": "list"}, lemmas=["RB-DUP"], props=PROPS_V)
contract(B + "Validator.__call__", inst="UniqueItems",
         requires=params_req({"uniqueItems": "is_bool({p})"}) + f" and {PROPERTY_OK} and is_json(value)",
         raises=[("ValidationError", f"({applies('(list,)')}) and has_dup_json(value)")], props=PROPS_V)
contract(B + "Validator.error_message", inst="UniqueItems", requires=params_req({"uniqueItems": "is_bool({p})"}), returns="is_str(result)",
         result_kind="str", props=["C10"])

contract("statham.schema.helpers:remove_duplicates", requires="is_list(seq)",
         returns="is_list(result) and len(result) <= len(seq) and (len(result) == len(seq)) == (not has_dup_py(seq)) and "
                 "implies(len(seq) >= 1, len(result) >= 1 and result[0] is seq[0])",
         result_kind="list", trusted=True, props=["C01"],
         note="uses a bound-method alias of a local list (seen_add = seen.append): outside the executor's subset; bounded-checked")

# type validators
contract(B + "NoMatch._validate", requires="True", raises=[("ValidationError", "not is_np(value)")], props=PROPS_V)
contract(B + "InstanceOf._validate",
         requires="dict_wf(self.params) and has(self.params,'types') and is_tuple(self.params['types']) and "
                  "forall(lambda j: is_cls(self.params['types'][j]), len(self.params['types']))",
         raises=[("ValidationError", "not is_np(value) and len(self.params['types']) > 0 and not "
                  "((bool in self.params['types']) if is_bool(value) else isinstance(value, self.params['types']))")],
         kinds={"self.params['types']": "tuple"}, props=PROPS_V)
INSTANCEOF_REQ = ("dict_wf(self.params) and has(self.params,'types') and is_tuple(self.params['types']) and "
                  "forall(lambda j: is_cls(self.params['types'][j]), len(self.params['types']))")
INSTANCEOF_COND = ("not is_np(value) and len(self.params['types']) > 0 and not "
                   "((bool in self.params['types']) if is_bool(value) else isinstance(value, self.params['types']))")
contract(B + "Validator.__call__", inst="InstanceOf", requires=f"{INSTANCEOF_REQ} and {PROPERTY_OK} and is_json(value)",
         raises=[("ValidationError", INSTANCEOF_COND)], props=PROPS_V)
contract(B + "Validator.error_message", inst="InstanceOf", requires=INSTANCEOF_REQ, returns="is_str(result)", result_kind="str", props=["C10"], trusted=True,
         note="message text only (str.format over params)")
