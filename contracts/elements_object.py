"""Contracts: statham/schema/elements/object.py and the metaclass properties Object.__new__ reads (C05, C01, C04)."""
from pyvc.contracts import contract
from contracts.elements_base import PROPERTY_OK

O = "statham.schema.elements.object:"
M = "statham.schema.elements.meta:"
ECALL = "statham.schema.elements.base:Element.__call__"

# ObjectMeta.validators: the class's type validator InstanceOf(dict, cls), an AdditionalProperties over the class's Properties,
# and the keyword validators of the object keywords -- membership form, as for Element.validators
from contracts import elements_base as EB
_OBJ_CLASSES = ["Required", "MinProperties", "MaxProperties", "PropertyNames", "Const", "Enum", "Dependencies"]
def _obj_val_post():
    sub = lambda t: t.replace("element", "cls")
    gv = [(C, present, params) for C, present, params in EB._GV if C in _OBJ_CLASSES]
    cl = [f"implies({sub(present)}, some_member(result, lambda m: type_is(m, {C}) and dict_wf(m.params) and {sub(params)}))" for C, present, params in gv]
    cl += [f"all_members(result, lambda m: implies(type_is(m, {C}), ({sub(present)}) and dict_wf(m.params) and {sub(params)}))" for C, present, params in gv]
    cl += ["all_members(result, lambda m: type_is(m, InstanceOf) or type_is(m, AdditionalProperties) or " + " or ".join(f"type_is(m, {C})" for C, _, _ in gv) + ")"]
    tp = "dict_wf(m.params) and has(m.params,'types') and m.params['types'] is (dict, cls)"
    cl += [f"some_member(result, lambda m: type_is(m, InstanceOf) and {tp})", f"all_members(result, lambda m: implies(type_is(m, InstanceOf), {tp}))"]
    ap = "dict_wf(m.params) and has(m.params,'__properties__') and isinstance(m.params['__properties__'], Properties)"
    cl += [f"some_member(result, lambda m: type_is(m, AdditionalProperties) and {ap})", f"all_members(result, lambda m: implies(type_is(m, AdditionalProperties), {ap}))"]
    return " and ".join(cl)
contract(M + "ObjectMeta.validators",
         requires="is_cls(cls) and isinstance(cls, ObjectMeta) and elem_wf(cls) and bound(cls) and " + EB.GV_REQ.replace("element", "cls"),
         returns="is_list(result) and all_members(result, lambda m: is_obj(m) and isinstance(m, Validator)) and " + _obj_val_post(),
         assume=["result is validators_of(cls)"], result_kind="list", kinds={"cls": "cls"},
         props=["C05", "C01", "C04", "C15"])

# the metaclass properties, verified for a symbolic model class
contract(M + "ObjectMeta.type_validator", requires="is_cls(cls)",
         returns="type_is(result, InstanceOf) and dict_wf(result.params) and has(result.params,'types') and result.params['types'] is (dict, cls)",
         kinds={"cls": "cls"}, ghost={"result_fresh": True}, props=["C01", "C04"])

# Element.__properties__ read from a model *class* (ObjectMeta is a subclass of Element, so the property applies to classes)
contract("statham.schema.elements.base:Element.__properties__", inst="@cls", requires="is_cls(self) and isinstance(self, ObjectMeta) and elem_wf(self) and bound(self)",
         returns="type_is(result, Properties) and result.element is self and props_wf(result)", ghost={"result_fresh": True}, result_cls="Properties",
         kinds={"self": "cls"}, props=["C01", "C04", "C05"])

# Object.__new__: the class-based twin of Element.__call__.
#   an instance of the class passes through; with no value: NotPassed when the class has no default, else the default converted
#   as if supplied when the class accepts it and the raw default when it does not (never an error); with a value: every validator
#   of the class is run -- raises ValidationError iff one of them rejects -- and a fresh, attribute-less instance is returned
#   for __init__ to fill.
contract(O + "Object.__new__",
         requires="is_cls(cls) and isinstance(cls, ObjectMeta) and elem_wf(cls) and bound(cls) and " + EB.GV_REQ.replace("element", "cls") + " and "
                  "not attr_absent(cls,'default') and (is_np(cls.default) or is_json(cls.default)) and "
                  "(is_json(value) or is_np(value) or is_obj(value)) and " + PROPERTY_OK,
         returns="implies(isinstance(value, cls), result is value) and "
                 "implies(not isinstance(value, cls) and is_np(value) and is_np(cls.default), result is value) and "
                 "implies(not isinstance(value, cls) and is_np(value) and not is_np(cls.default), "
                 "        result is (build(cls, cls.default) if sem(cls, cls.default) else cls.default)) and "
                 "implies(not isinstance(value, cls) and not is_np(value), is_obj(result) and type_is(result, cls) and accepts_all(validators_of(cls), value))",
         raises=[("ValidationError", "not isinstance(value, cls) and not is_np(value) and not accepts_all(validators_of(cls), value)")],
         calls={"cls": ECALL}, kinds={"cls": "cls", "validator": "Validator"},
         invariants={1: "all_members(prefix(_seq, _k), lambda m: not vrejects(m, value))"},
         props=["C05", "C01", "C04", "C10"])
