"""Contracts: statham/schema/elements/object.py and the metaclass properties Object.__new__ reads (C05, C01, C04)."""
from pyvc.contracts import contract
from contracts.elements_base import PROPERTY_OK

O = "statham.schema.elements.object:"
M = "statham.schema.elements.meta:"
ECALL = "statham.schema.elements.base:Element.__call__"

# caller's view of a model class's validators (the metaclass property): the list validators_of(cls) of Validator objects
contract(M + "ObjectMeta.validators", requires="is_cls(cls)",
         returns="is_list(result) and all_members(result, lambda m: is_obj(m) and isinstance(m, Validator))",
         assume=["result is validators_of(cls)"], result_kind="list", kinds={"cls": "cls"}, trusted=True,
         props=["C05", "C01"], note="caller's view of cls.validators for a model class (built by ObjectMeta.validators from the class's keywords: "
                                     "bounded-checked through the pipeline comparison)")

# Object.__new__: the class-based twin of Element.__call__.
#   an instance of the class passes through; with no value: NotPassed when the class has no default, else the default converted
#   as if supplied when the class accepts it and the raw default when it does not (never an error); with a value: every validator
#   of the class is run -- raises ValidationError iff one of them rejects -- and a fresh, attribute-less instance is returned
#   for __init__ to fill.
contract(O + "Object.__new__",
         requires="is_cls(cls) and isinstance(cls, ObjectMeta) and not attr_absent(cls,'default') and (is_np(cls.default) or is_json(cls.default)) and "
                  "(is_json(value) or is_np(value) or is_obj(value)) and " + PROPERTY_OK,
         returns="implies(isinstance(value, cls), result is value) and "
                 "implies(not isinstance(value, cls) and is_np(value) and is_np(cls.default), result is value) and "
                 "implies(not isinstance(value, cls) and is_np(value) and not is_np(cls.default), "
                 "        result is (build(cls, cls.default) if sem(cls, cls.default) else cls.default)) and "
                 "implies(not isinstance(value, cls) and not is_np(value), is_obj(result) and type_is(result, cls) and accepts_all(validators_of(cls), value))",
         raises=[("ValidationError", "not isinstance(value, cls) and not is_np(value) and not accepts_all(validators_of(cls), value)")],
         calls={"cls": ECALL}, kinds={"cls": "cls", "validator": "Validator"},
         invariants={1: "all_members(prefix(_seq, _k), lambda m: not vrejects(m, value))"},
         props=["C05", "C01", "C04", "C10"])
