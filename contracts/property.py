"""Contracts: statham/schema/property.py."""
from pyvc.contracts import contract

P = "statham.schema.property:"
ECALL = "statham.schema.elements.base:Element.__call__"

PROP_WF = ("isinstance(self, _Property) and not attr_absent(self,'element') and not attr_absent(self,'required') and "
           "not attr_absent(self,'source') and not attr_absent(self,'name') and not attr_absent(self,'parent')")

contract(P + "_Property.__init__", requires="True",
         returns="self.element is element and self.required is required and self.name is None and self.source is source and self.parent is None",
         modifies=["self"], props=["C08", "C13", "C14", "C15"])

# bind: the three binding fields; writes nothing else.  `bound` objects are re-bound with the values they hold.
contract(P + "_Property.bind", requires=PROP_WF,
         returns="(self.parent is (parent if truthy(parent) else old(self.parent))) and "
                 "(self.name is (name if truthy(name) else old(self.name))) and "
                 "(self.source is (name if (truthy(name) and old(self.source) is None) else old(self.source))) and "
                 "self.element is old(self.element) and self.required is old(self.required)",
         modifies=["self"], props=["C08", "C13", "C14", "C15", "C12"])

contract(P + "_Property.clone", requires=PROP_WF,
         returns="isinstance(result, _Property) and result.element is self.element and result.required is self.required and "
                 "result.source is self.source and result.name is None and result.parent is None",
         result_cls="_Property", ghost={"result_fresh": True}, props=["C15", "C08"])

contract(P + "_Property.evolve", requires=PROP_WF,
         returns="isinstance(result, _Property) and result.element is self.element and result.required is self.required",
         result_cls="_Property", ghost={"result_fresh": True}, props=["C08", "C13", "C14"])

contract(P + "_Property.__call__", requires=PROP_WF + " and is_obj(self.element)",
         returns="result is (dflt(self.element) if is_np(value) else build(self.element, value))",
         raises=[(("ValidationError", "TypeError"), "not is_np(value) and not sem(self.element, value)")],
         ghost={"function": "dflt(self.element) if is_np(value) else build(self.element, value)"},
         calls={"self.element": ECALL}, props=["C01", "C04", "C08"])

# property equality: same element (by ==), same required flag, same JSON name; never equal to a non-property.
# `==` between element objects is the uninterpreted relation obj_eq (Element.__eq__ itself -- structural comparison of vars() --
# stays in the bounded tier); the clause below is symmetric in self/other whenever obj_eq is.
contract(P + "_Property.__eq__",
         requires=PROP_WF + " and implies(isinstance(other, _Property), not attr_absent(other,'element') and not attr_absent(other,'required') and not attr_absent(other,'source'))",
         returns="is_bool(result) and implies(not isinstance(other, _Property), result is False) and "
                 "implies(isinstance(other, _Property), result == (py_eq(self.element, other.element) and py_eq(self.required, other.required) and py_eq(self.source, other.source)))",
         props=["C17"])

# C05 / Dev-3: the names a model requires = JSON names of required properties that declare no default
PD = "obj_dict(self)"
PJ = f"val_at({PD}, j)"
QUAL = f"(truthy({PJ}.required) and is_np({PJ}.element.default))"
SRC = f"(key_at({PD}, j) if {PJ}.source is None else {PJ}.source)"
contract(P + "_PropertyDict.required",
         requires=f"dict_wf({PD}) and forall(lambda j: isinstance({PJ}, _Property) and not attr_absent({PJ},'required') and not attr_absent({PJ},'element') and "
                  f"is_obj({PJ}.element) and not attr_absent({PJ}.element,'default') and (is_str({PJ}.source) or is_none({PJ}.source)), len({PD}))",
         returns=f"is_list(result) and forall(lambda q: exists(lambda j: {QUAL} and result[q] is {SRC}, len({PD})), len(result)) and "
                 f"forall(lambda j: implies({QUAL}, exists(lambda q: result[q] is {SRC}, len(result))), len({PD}))",
         result_kind="list", kinds={"prop": "_Property"}, props=["C05", "C01", "C03"])
