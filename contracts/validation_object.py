"""Contracts: statham/schema/validation/object.py (Draft-6 validation 6.15-6.22)."""
from pyvc.contracts import contract

M = "statham.schema.validation.object:"
P = "dict_wf(value) and dict_wf(self.params) and "
ECALL = "statham.schema.elements.base:Element.__call__"
STRLIST = "is_list({x}) and forall(lambda j: is_str({x}[j]), len({x}))"

contract(M + "Dependencies.validate_schema_dependency",
         requires="is_obj(dependency) and not is_np(value)",
         raises=[("ValidationError", "not sem(dependency, value)")],
         calls={"dependency": ECALL}, props=["C01", "C10", "C08"])

contract(M + "Required.from_element",
         requires="(is_obj(element) or is_cls(element)) and (attr_absent(element,'required') or is_np(element.required) or is_none(element.required) or ("
                  + STRLIST.format(x="element.required") + ")) and (attr_absent(element,'properties') or is_np(element.properties) "
                  "or is_none(element.properties) or (isinstance(element.properties, _PropertyDict) and "
                  + STRLIST.format(x="element.properties.required") + "))",
         returns="(result is None) == (len(eff_required(element)) == 0) and "
                 "implies(result is not None, isinstance(result, Required) and dict_wf(result.params) and len(result.params) == 1 and result.params['required'] is eff_required(element))",
         props=["C01", "C05", "C08", "C13", "C14", "C15"])
