"""Contracts: statham/schema/validation/object.py (Draft-6 validation 6.15-6.22)."""
from pyvc.contracts import contract

M = "statham.schema.validation.object:"
P = "dict_wf(value) and dict_wf(self.params) and "
ECALL = "statham.schema.elements.base:Element.__call__"
STRLIST = "is_list({x}) and forall(lambda j: is_str({x}[j]), len({x}))"

contract(M + "Required._validate",
         requires=P + "has(self.params,'required') and " + STRLIST.format(x="self.params['required']"),
         raises=[("ValidationError", "not all_present(self.params['required'], value)")],
         kinds={"value": "dict", "self.params['required']": "list"}, props=["C01", "C10", "C08"])
contract(M + "MinProperties._validate",
         requires=P + "has(self.params,'minProperties') and is_num(self.params['minProperties'])",
         raises=[("ValidationError", "len(value) < num(self.params['minProperties'])")],
         kinds={"value": "dict"}, props=["C01", "C10", "C08"])
contract(M + "MaxProperties._validate",
         requires=P + "has(self.params,'maxProperties') and is_num(self.params['maxProperties'])",
         raises=[("ValidationError", "len(value) > num(self.params['maxProperties'])")],
         kinds={"value": "dict"}, props=["C01", "C10", "C08"])
contract(M + "PropertyNames._validate",
         requires=P + "has(self.params,'propertyNames') and is_obj(self.params['propertyNames'])",
         raises=[("ValidationError", "exists(lambda j: not sem(self.params['propertyNames'], key_at(value, j)), len(value))")],
         calls={"self.params['propertyNames']": ECALL},
         invariants={1: "forall(lambda j: sem(self.params['propertyNames'], key_at(value, j)), _k)"},
         kinds={"value": "dict"}, props=["C01", "C10", "C08"])
contract(M + "Dependencies.validate_schema_dependency",
         requires="is_obj(dependency) and not is_np(value)",
         raises=[("ValidationError", "not sem(dependency, value)")],
         calls={"dependency": ECALL}, props=["C01", "C10", "C08"])

DEPS = ("has(self.params,'dependencies') and dict_wf(self.params['dependencies']) and "
        "forall(lambda j: (is_list(val_at(self.params['dependencies'], j)) and "
        "forall(lambda i: is_str(val_at(self.params['dependencies'], j)[i]), len(val_at(self.params['dependencies'], j))))"
        " or is_obj(val_at(self.params['dependencies'], j)), len(self.params['dependencies']))")
DEP_BAD = ("has(value, key_at(self.params['dependencies'], j)) and "
           "(not all_present(val_at(self.params['dependencies'], j), value) "
           "if is_list(val_at(self.params['dependencies'], j)) else not sem(val_at(self.params['dependencies'], j), value))")
contract(M + "Dependencies._validate",
         requires=P + DEPS,
         raises=[("ValidationError", f"exists(lambda j: {DEP_BAD}, len(self.params['dependencies']))")],
         invariants={1: f"forall(lambda j: not ({DEP_BAD}), _k)"},
         kinds={"value": "dict", "self.params['dependencies']": "dict"},
         props=["C01", "C10", "C08"])

contract(M + "AdditionalProperties._validate",
         requires=P + "has(self.params,'__properties__') and isinstance(self.params['__properties__'], Properties)"
                      " and is_obj(self.params['__properties__'].additional)",
         raises=[("ValidationError", "not truthy(self.params['__properties__'].additional) and "
                  "exists(lambda j: not props_accepts(self.params['__properties__'], key_at(value, j)), len(value))")],
         kinds={"value": "dict", "self.params['__properties__']": "Properties"},
         props=["C01", "C10", "C08"])

contract("statham.schema.elements.properties:Properties.__contains__",
         requires="is_str(key)", returns="result is props_accepts(self, key)",
         ghost={"function": "props_accepts(self, key)"},
         result_kind="bool", trusted=True, props=["C01"],
         note="verified in contracts/elements_properties.py")

contract(M + "Required.from_element",
         requires="is_obj(element) and (attr_absent(element,'required') or is_np(element.required) or is_none(element.required) or ("
                  + STRLIST.format(x="element.required") + ")) and (attr_absent(element,'properties') or is_np(element.properties) "
                  "or is_none(element.properties) or (isinstance(element.properties, _PropertyDict) and "
                  + STRLIST.format(x="element.properties.required") + "))",
         returns="(result is None) == (len(eff_required(element)) == 0) and "
                 "implies(result is not None, isinstance(result, Required) and dict_wf(result.params) and len(result.params) == 1 and result.params['required'] is eff_required(element))",
         props=["C01", "C05", "C08", "C13", "C14", "C15"])
