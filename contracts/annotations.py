"""Contracts: annotation inference (C19).

The type a checker reads from an annotation text is outside SMT; what is under contract is the *choice* of text per element
kind and the optional wrapper -- the two places where the annotation is tied to facts the value-construction contracts also
speak about (the class's accepted Python types: Element.type_validator[K]; required/default: _PropertyDict.required,
Element.__call__'s default clause)."""
from pyvc.contracts import contract

E = "statham.schema.elements.base:"
P = "statham.schema.property:"
M = "statham.schema.elements.meta:"

# leaf element classes: the annotation names exactly the Python type the class's type validator admits
# (String -> (str,), Integer -> (int,), Number -> (float, int) announced as float, Boolean -> (bool,), Null -> NoneType;
#  the untyped Element announces Any)
LEAF = {"Element": "Any", "String": "str", "Integer": "int", "Number": "float", "Boolean": "bool"}
for K, text in LEAF.items():
    contract(E + "Element.annotation", inst=K, requires="True", returns=f"result == '{text}'", props=["C19"])
contract("statham.schema.elements.null:Null.annotation", requires="True", returns="result == 'None'", props=["C19"])
contract(E + "Nothing.annotation", requires="True", returns="result == 'None'", props=["C19"])

# caller's view under dynamic dispatch (the element class is not known at the call site)
contract(E + "Element.annotation", requires="True", returns="is_str(result)", ghost={"function": "ann(self)"}, result_kind="str", trusted=True,
         props=["C19"], note="caller's view of element.annotation under dynamic dispatch; verified per leaf class as Element.annotation[K], "
                               "bounded for Array/composition/object classes")

# the optional wrapper: absent only if the property is required or its element declares a default
contract(P + "_Property.annotation",
         requires="not attr_absent(self,'element') and not attr_absent(self,'required') and is_obj(self.element) and isinstance(self.element, Element)",
         kinds={"self.element": "Element"},
         returns="is_str(result) and "
                 "implies(truthy(self.required) or not (attr_absent(self.element,'default') or is_np(self.element.default)), result == ann(self.element)) and "
                 "implies(not truthy(self.required) and (attr_absent(self.element,'default') or is_np(self.element.default)), result == 'Maybe[' + ann(self.element) + ']')",
         props=["C19"])

contract(M + "ObjectMeta.annotation", requires="True", returns="result == cls.__name__", kinds={"cls": "cls"}, props=["C19"])

A = "statham.schema.elements.array:"
ARR_WF = ("not attr_absent(self,'items') and not attr_absent(self,'additionalItems') and "
          "((is_obj(self.items) and isinstance(self.items, Element)) or (is_list(self.items) and "
          "forall(lambda j: is_obj(self.items[j]) and isinstance(self.items[j], Element), len(self.items))))")
# the item annotations of an array: a single-schema array announces exactly its item schema's annotation; a tuple array with
# unconstrained additional items announces Any (values beyond the tuple are arbitrary)
contract(A + "Array.item_annotations", requires=ARR_WF,
         returns="is_list(result) and "
                 "implies(is_obj(self.items), len(result) == 1 and result[0] == ann(self.items)) and "
                 "implies(is_list(self.items) and self.additionalItems is True, len(result) == 1 and result[0] == 'Any')",
         result_kind="list", ghost={"function": "item_anns(self)", "function_facts": True}, props=["C19"])

# List / List[T] / List[Union[...]]: the element type announced is exactly the item annotation(s)
contract(A + "Array.annotation", requires=ARR_WF + " and is_list(item_anns(self)) and forall(lambda j: is_str(item_anns(self)[j]), len(item_anns(self)))",
         returns="is_str(result) and implies(len(item_anns(self)) == 0, result == 'List') and "
                 "implies(len(item_anns(self)) == 1, result == 'List[' + item_anns(self)[0] + ']') and "
                 "implies(len(item_anns(self)) >= 2, result.startswith('List[Union['))",
         props=["C19"])

C = "statham.schema.elements.composition:"
# a composition of a single branch announces that branch's annotation; in general the text is a str built from the branches'
contract(C + "CompositionElement.annotation",
         requires="not attr_absent(self,'elements') and is_list(self.elements) and forall(lambda j: is_obj(self.elements[j]) and isinstance(self.elements[j], Element), len(self.elements))",
         returns="is_str(result) and implies(len(self.elements) == 1, result == ann(self.elements[0]))",
         kinds={"self.elements": "list"}, props=["C19"])
