"""Contracts: statham/schema/elements/items.py."""
from pyvc.contracts import contract

I = "statham.schema.elements.items:"
ECALL = "statham.schema.elements.base:Element.__call__"
WF = ("not attr_absent(self,'items') and not attr_absent(self,'additional') and is_obj(self.additional) and "
      "(is_obj(self.items) or (is_list(self.items) and forall(lambda j: is_obj(self.items[j]), len(self.items))))")

from pyvc.contracts import macro
macro("items_wf", ["self"], WF)

# item_schema(I, j): the element governing index j (Draft-6 6.9/6.10)
ITEM = "(self.items if not is_list(self.items) else (self.items[index] if index < len(self.items) else self.additional))"

contract(I + "Items.__init__",
         requires="(is_np(items) or is_obj(items) or is_list(items)) and (is_bool(additional) or is_obj(additional))",
         returns="implies(not is_np(items), self.items is items) and implies(is_np(items), type_is(self.items, Element)) and "
                 "implies(is_obj(additional), self.additional is additional) and "
                 "implies(additional is True, type_is(self.additional, Element)) and implies(additional is False, type_is(self.additional, Nothing))",
         modifies=["self"], props=["C01", "C04", "C08", "C19"])

contract(I + "Items.__getitem__", requires=WF + " and is_int(index) and index >= 0",
         returns=f"result is {ITEM}", ghost={"function": ITEM},
         kinds={"index": "int"}, props=["C01", "C04", "C08", "C10"])

contract(I + "Items.property", requires="isinstance(property_, _Property) and not attr_absent(property_,'name') and "
         "not attr_absent(property_,'element') and not attr_absent(property_,'required') and not attr_absent(property_,'source') and "
         "not attr_absent(property_,'parent') and (is_none(property_.name) or is_str(property_.name))",
         returns="isinstance(result, _Property)", result_cls="_Property", ghost={"result_fresh": True},
         kinds={"property_": "_Property"}, props=["C08", "C10"])

contract(I + "Items.__call__",
         requires=WF + " and is_list(value) and forall(lambda j: not is_np(value[j]), len(value)) and isinstance(property_, _Property) and "
         "not attr_absent(property_,'name') and not attr_absent(property_,'element') and not attr_absent(property_,'required') and "
         "not attr_absent(property_,'source') and not attr_absent(property_,'parent') and (is_none(property_.name) or is_str(property_.name))",
         returns="is_list(result) and len(result) == len(value) and forall(lambda j: result[j] is build(item_schema(self, j), value[j]), len(value))",
         raises=[(("ValidationError", "TypeError"), "exists(lambda j: not sem(item_schema(self, j), value[j]), len(value))")],
         calls={"self[index]": ECALL}, kinds={"value": "list", "property_": "_Property"},
         props=["C01", "C04", "C08", "C10", "C14"])
