"""Deterministic small-scope generators (bounded tier, witness search).  Everything produced here is
labelled *bounded* in the evidence."""
import itertools
import random

SCALARS = [None, True, False, 0, 1, -1, 2, 3, 1.0, 0.0, 1.5, 2.5, "", "a", "ab", "abc", "1"]
EXTREME = [10 ** 400, -(10 ** 400), 1e308, -1e308, 5e-324, 2 ** 53 + 1, 1e16, 0.1, 99999999999999999999]


def json_values(depth=2, width=2, scalars=None):
    """All JSON values up to the given nesting depth/width over the scalar pool (deduplicated by repr)."""
    scalars = SCALARS if scalars is None else scalars
    level = list(scalars)
    seen = set()
    out = []

    def add(v):
        k = repr(v)
        if k not in seen:
            seen.add(k)
            out.append(v)

    for v in level:
        add(v)
    prev = list(out)
    small = [None, True, 1, 1.0, "a", 0, False]
    for _ in range(depth):
        new = []
        inner = [v for v in prev if v in small or isinstance(v, (list, dict))][:12] if prev is not out else prev
        base = small + [v for v in prev if isinstance(v, (list, dict))][:8]
        for n in range(0, width + 1):
            for combo in itertools.product(base, repeat=n):
                new.append(list(combo))
        keys = ["a", "b", "a-b", "a_b", ""]
        new.append({})
        for k in keys[:3]:
            for v in base:
                new.append({k: v})
        for k1, k2 in [("a", "b"), ("a-b", "a_b"), ("b", "a")]:
            for v1, v2 in itertools.product(small[:4], repeat=2):
                new.append({k1: v1, k2: v2})
        before = len(out)
        for v in new:
            add(v)
        prev = out[before:]
    return out


def small_values():
    return json_values(depth=1, width=2)


def values_quick():
    return json_values(depth=1, width=2) + [[[1], [True]], [[1], [1.0]], {"a": [True]}, {"a": {"b": 1}}, [{"a": 1}, {"a": 1.0}],
                                            [1, True], [0, False], [1, 1.0], ["a", "a"], [[], []], [{}, {}]]


def shuffled(items, seed):
    items = list(items)
    random.Random(seed).shuffle(items)
    return items


# ------------------------------------------------------------------ elements (DSL trees)

def elements(level=1):
    """A pool of element trees built through the public DSL. level 0: leaves; 1: one nesting; 2: two."""
    from statham.schema.elements import (AllOf, AnyOf, Array, Boolean, Element, Integer, Not, Nothing, Null, Number,
                                         Object, OneOf, String)
    from statham.schema.property import Property
    leaves = [
        lambda: Element(), lambda: Nothing(), lambda: String(), lambda: Integer(), lambda: Number(), lambda: Boolean(),
        lambda: Null(), lambda: Element(minimum=1), lambda: Element(maximum=1), lambda: Element(exclusiveMinimum=1),
        lambda: Element(exclusiveMaximum=1), lambda: Element(multipleOf=2), lambda: Element(multipleOf=0.5),
        lambda: Element(minLength=1), lambda: Element(maxLength=1), lambda: Element(pattern="^a"),
        lambda: Element(const=True), lambda: Element(const=1), lambda: Element(const=[True]), lambda: Element(const={"a": 1.0}),
        lambda: Element(enum=[1, "a", None]), lambda: Element(enum=[[True], {"a": False}]), lambda: Element(enum=[3, 1, 2]), lambda: String(enum=["b", "a", "c"]),
        lambda: Element(required=["b", "a"]), lambda: Element(dependencies={"k": ["z", "a"]}),
        lambda: Element(minItems=1), lambda: Element(maxItems=1), lambda: Element(uniqueItems=True),
        lambda: Element(minProperties=1), lambda: Element(maxProperties=1), lambda: Element(required=["a"]),
        lambda: Element(default=0), lambda: String(default="a"), lambda: Integer(default="bad"),
        lambda: Element(format="uuid"), lambda: String(format="date-time"), lambda: Element(format="unregistered-x"),
        lambda: Integer(minimum=0, maximum=2), lambda: Number(exclusiveMinimum=0), lambda: String(minLength=1, maxLength=2),
        lambda: Element(default=[1, 2]), lambda: Element(default={"a": 1}), lambda: Array(Integer(), default=[1, 2]),
        lambda: Array(Number(), default=[1]), lambda: Element(default={"a": [1]}, properties={"a": Property(Array(Number()))}),
    ]
    out = list(leaves)
    if level >= 1:
        subs = [lambda: String(), lambda: Integer(), lambda: Element(minimum=1), lambda: Nothing(), lambda: Element(),
                lambda: Number(), lambda: Element(const=True)]
        for s in subs:
            out.append(lambda s=s: Array(s()))
            out.append(lambda s=s: Element(items=s()))
            out.append(lambda s=s: Element(contains=s()))
            out.append(lambda s=s: Not(s()))
            out.append(lambda s=s: Element(additionalProperties=s()))
            out.append(lambda s=s: Element(propertyNames=s()))
            out.append(lambda s=s: Element(patternProperties={"^a": s()}))
            out.append(lambda s=s: Element(properties={"a": Property(s())}))
            out.append(lambda s=s: Element(properties={"a": Property(s(), required=True)}))
            out.append(lambda s=s: Element(properties={"a_b": Property(s(), source="a-b")}))
            out.append(lambda s=s: Element(dependencies={"a": s()}))
            out.append(lambda s=s: Element(items=[s(), String()], additionalItems=False))
            out.append(lambda s=s: Element(items=[s()], additionalItems=Integer()))
        out += [
            lambda: Element(dependencies={"a": ["b"]}),
            lambda: Element(required=["a"], properties={"b": Property(String(), required=True)}),
            lambda: Element(properties={"a": Property(String(default="d"), required=True)}),
            lambda: Element(properties={"class_": Property(String(default="d"), source="class")}),
            lambda: Element(properties={"a": Property(Integer(default="bad"))}),
            lambda: Element(properties={"a": Property(String())}, patternProperties={"^a": Element(minLength=2)}),
            lambda: Element(properties={"a": Property(String())}, additionalProperties=False),
            lambda: Element(patternProperties={"^a": String(), "a$": Element(maxLength=2)}, additionalProperties=False),
            lambda: AnyOf(String(), Integer()), lambda: OneOf(Integer(), Number()), lambda: AllOf(Integer(), Element(minimum=1)),
            lambda: OneOf(Element(minimum=1), Element(maximum=3)), lambda: AnyOf(Element(minimum=3), Element(maximum=1)),
            lambda: AllOf(String(), Element(maxLength=1), default="a"), lambda: AnyOf(String(), Integer(), default=1),
            lambda: Array(String(), minItems=1, uniqueItems=True), lambda: Array([String(), Integer()]),
            lambda: Array(Number()), lambda: Element(items=Number()),
        ]
    level1 = list(out[len(leaves):]) if level >= 1 else []
    if level >= 2:
        def cls_plain():
            class Plain(Object):
                a = Property(String())
            return Plain

        def cls_req():
            class Req(Object, additionalProperties=False):
                a = Property(String(), required=True)
                b = Property(Integer(default=3))
            return Req

        def cls_renamed():
            class Renamed(Object):
                class_ = Property(String(default="dflt"), source="class")
                a_b = Property(Integer(), source="a-b")
            return Renamed

        def cls_expl():
            class Expl(Object, required=["x"]):
                b = Property(String(), required=True)
            return Expl

        def cls_child():
            class Par(Object, required=["x"], minProperties=1):
                a = Property(String(), required=True)

            class Ch(Par, maxProperties=3):
                b = Property(Integer(), required=True)
            return Ch

        def cls_nested():
            class Inner(Object):
                n = Property(Number(), required=True)

            class Outer(Object):
                inner = Property(Inner, required=True)
                many = Property(Array(Inner))
            return Outer

        def cls_default():
            class Dflt(Object, default={"a": "x"}):
                a = Property(String())
            return Dflt
        out += [cls_plain, cls_req, cls_renamed, cls_expl, cls_child, cls_nested, cls_default,
                lambda: Array(cls_req()), lambda: AnyOf(cls_plain(), String()), lambda: AllOf(Element(minProperties=1), cls_plain()),
                lambda: Element(properties={"o": Property(cls_req())}), lambda: OneOf(cls_req(), cls_renamed())]
    if level >= 3:
        # two nestings: every one-level wrapper around every level-1 element (thorough tier only)
        wrappers = [
            lambda s: Array(s), lambda s: Element(items=s), lambda s: Element(contains=s), lambda s: Not(s),
            lambda s: Element(additionalProperties=s), lambda s: Element(propertyNames=s), lambda s: Element(patternProperties={"^a": s}),
            lambda s: Element(properties={"a": Property(s)}), lambda s: Element(properties={"a": Property(s, required=True)}),
            lambda s: Element(properties={"a_b": Property(s, source="a-b")}), lambda s: Element(dependencies={"a": s}),
            lambda s: Element(items=[s, String()], additionalItems=False), lambda s: Element(items=[String()], additionalItems=s),
            lambda s: AnyOf(s, String()), lambda s: OneOf(s, Null()), lambda s: AllOf(Element(), s),
        ]
        for wfn in wrappers:
            for m in level1:
                out.append(lambda wfn=wfn, m=m: wfn(m()))
    return out


def values_for(element):
    """Values aimed at an element: the quick pool plus keyword boundaries."""
    vals = list(values_quick())
    vals += [{"a": "x"}, {"a": "x", "b": 1}, {"b": "x"}, {"a": 1}, {"class": "k"}, {"class_": "k"}, {"a-b": 1}, {"a_b": 1},
             {"a-b": 1, "a_b": "s"}, {"x": 1, "b": "s"}, {"x": 1, "a": "s", "b": 2}, {"inner": {"n": 1}}, {"inner": {"n": 1}, "many": [{"n": 2.5}]},
             {"o": {"a": "s"}}, {"": 1}, {"": "s"}, {"blank": 1}, {"blank": "s"}, {"": "s", "blank": "t"}, ["a", 1], ["a", 1, 2], ["a", "b"], [1, 2], [1.5], "aa", "abc", 4, 2.0, 0.5,
             "123e4567-e89b-12d3-a456-426614174000", "2020-01-01T00:00:00Z", "not-a-date"]
    return vals
