"""Bounded stand-ins: C20 C11 C12 C17 C18 C19 C02 C03 C06."""
import copy
import itertools
import json
import keyword
import os
import shutil
import tempfile

from . import gen, schemas
from .props import Acc, quiet, outcome, jkey, edesc, element_cases, serial, exec_generated, registered_formats
from .props2 import plain
from runtime.monitor import obs
from spec import draft6, pyspec

UNSUPPORTED = ["$defs", "if", "then", "else", "unevaluatedItems", "unevaluatedProperties"]


# ------------------------------------------------------------------ C20
def c20_positions(carrier):
    """Documents placing `carrier` at every schema position; (name, doc, via_parse_only)."""
    c = lambda: copy.deepcopy(carrier)
    return [
        ("root", c()),
        ("properties", {"properties": {"a": c()}}),
        ("patternProperties", {"patternProperties": {"^a": c()}}),
        ("additionalProperties", {"additionalProperties": c()}),
        ("propertyNames", {"propertyNames": c()}),
        ("dependencies", {"dependencies": {"a": c()}}),
        ("items", {"items": c()}),
        ("tuple items", {"items": [{"type": "string"}, c()]}),
        ("additionalItems", {"items": [{"type": "string"}], "additionalItems": c()}),
        ("contains", {"contains": c()}),
        ("anyOf", {"anyOf": [{"type": "string"}, c()]}),
        ("oneOf", {"oneOf": [c(), {"type": "string"}]}),
        ("allOf", {"allOf": [c()]}),
        ("not", {"not": c()}),
        ("allOf with siblings", {"type": "string", "allOf": [c()], "minLength": 1}),
        ("typed array items", {"type": "array", "items": c()}),
        ("object class property", {"type": "object", "title": "Holder", "properties": {"a": c()}}),
        ("object class additionalProperties", {"type": "object", "title": "Holder", "additionalProperties": c()}),
        ("multi-type", {"type": ["array", "null"], "items": c()}),
        ("nested twice", {"properties": {"a": {"items": {"anyOf": [c()]}}}}),
        ("definitions", {"type": "string", "definitions": {"d": c()}}),
    ]


def c20_unsupported(run):
    from statham.schema.parser import parse
    from statham.schema.exceptions import FeatureNotImplementedError
    carriers = [{"type": "string"}, {}, {"type": "object", "title": "Carrier", "properties": {"x": {"type": "string"}}},
                {"type": "array"}, {"type": ["string", "integer"]}, {"type": "integer", "minimum": 0}]
    acc = Acc(run, "C20-unsupported", f"{len(carriers)} carrier schemas x 21 schema positions x {len(UNSUPPORTED)} unsupported keywords through parse(); "
              "literal positions (default/const/enum contents, property names) must not trigger; self-/mutual/long reference cycles")
    w = quiet()
    try:
        for carrier in carriers:
            for kw in UNSUPPORTED:
                bad = {**copy.deepcopy(carrier), kw: ({"type": "string"} if kw not in ("$defs",) else {"x": {"type": "string"}})}
                for (pname, doc), (_, clean) in zip(c20_positions(bad), c20_positions(carrier)):
                    key = f"{kw}@{pname}/{jkey(carrier)}"
                    acc.case(key)
                    try:
                        parse(copy.deepcopy(doc))
                        acc.fail(key, f"schema using unsupported `{kw}` at position {pname} was parsed without error (silently ignored)")
                    except FeatureNotImplementedError:
                        pass
                    except Exception as ex:
                        acc.fail(key, f"unsupported `{kw}` at {pname}: raised {type(ex).__name__} instead of FeatureNotImplementedError: {ex}")
                    try:
                        parse(copy.deepcopy(clean))
                    except Exception as ex:
                        acc.fail(key + " [without]", f"the same schema without `{kw}` does not parse: {type(ex).__name__}: {ex}")
        # literals never trigger
        for kw in UNSUPPORTED:
            for doc in [{"default": {kw: 1}}, {"const": {kw: {"x": 1}}}, {"enum": [{kw: True}, kw]}, {"properties": {kw: {"type": "string"}}},
                        {"required": [kw]}, {"dependencies": {kw: ["a"]}}, {"type": "object", "title": "L", "properties": {kw: {"default": {kw: 1}}}}]:
                key = f"literal {kw}: {jkey(doc)}"
                acc.case(key)
                try:
                    parse(copy.deepcopy(doc))
                except Exception as ex:
                    acc.fail(key, f"`{kw}` used as a literal / property name was refused: {type(ex).__name__}: {ex}")
        # reference cycles (materialised documents are cyclic dict graphs)
        def self_cycle():
            d = {"type": "object", "title": "Node", "properties": {}}
            d["properties"]["next"] = d
            return d

        def mutual():
            a = {"type": "object", "title": "A", "properties": {}}
            b = {"type": "object", "title": "B", "properties": {"a": a}}
            a["properties"]["b"] = b
            return a

        def long_cycle(n=5):
            nodes = [{"type": "object", "title": f"N{i}", "properties": {}} for i in range(n)]
            for i in range(n):
                nodes[i]["properties"]["nx"] = nodes[(i + 1) % n]
            return nodes[0]

        def via_items():
            d = {"type": "array"}
            d["items"] = {"anyOf": [d, {"type": "string"}]}
            return d

        def in_definitions():
            d = {"type": "object", "title": "Def", "properties": {}}
            d["properties"]["me"] = d
            return {"type": "string", "definitions": {"d": d}}
        for mk in (self_cycle, mutual, long_cycle, via_items, in_definitions):
            key = f"cycle:{mk.__name__}"
            acc.case(key)
            try:
                parse(mk())
                acc.fail(key, "recursive document was parsed without error")
            except FeatureNotImplementedError:
                pass
            except BaseException as ex:
                acc.fail(key, f"recursive document: {type(ex).__name__} instead of FeatureNotImplementedError")
    finally:
        w.__exit__(None, None, None)
    return acc.result()


def c20_cli_cycles(run):
    """Real `$ref` cycles through files and the generator entry point."""
    from statham.__main__ import main
    from statham.schema.exceptions import FeatureNotImplementedError, SchemaParseError
    acc = Acc(run, "C20-cli-cycles", "self-, mutual and length-4 `$ref` cycles in temp files through statham.__main__.main")
    tmp = tempfile.mkdtemp(prefix="pyvc_c20_")
    w = quiet()
    try:
        docs = {
            "self.json": {"type": "object", "title": "S", "properties": {"me": {"$ref": "#"}}},
            "mutual.json": {"type": "object", "title": "M", "properties": {"o": {"$ref": "#/definitions/o"}},
                            "definitions": {"o": {"type": "object", "title": "O", "properties": {"m": {"$ref": "#"}}}}},
            "long.json": {"type": "object", "title": "L0", "properties": {"n": {"$ref": "#/definitions/a"}},
                          "definitions": {"a": {"type": "object", "title": "A", "properties": {"n": {"$ref": "#/definitions/b"}}},
                                          "b": {"type": "object", "title": "B", "properties": {"n": {"$ref": "#/definitions/c"}}},
                                          "c": {"type": "object", "title": "C", "properties": {"n": {"$ref": "#"}}}}},
        }
        for name, doc in docs.items():
            path = os.path.join(tmp, name)
            json.dump(doc, open(path, "w"))
            acc.case(name)
            try:
                main(path + "#/")
                acc.fail(name, "document with recursive references generated a module")
            except FeatureNotImplementedError:
                pass
            except BaseException as ex:
                acc.fail(name, f"recursive references: {type(ex).__name__} instead of the library's not-implemented error")
    finally:
        shutil.rmtree(tmp, ignore_errors=True)
        w.__exit__(None, None, None)
    return acc.result()


# ------------------------------------------------------------------ C11
def c11_wrappers():
    """Ways of placing a dependency on class B inside the declaration of class A: name -> (property element | class kwargs)."""
    from statham.schema.elements import AllOf, AnyOf, Array, Element, Not, OneOf, String
    from statham.schema.property import Property
    return {
        "property": lambda B: {"props": {"d": Property(B)}},
        "items": lambda B: {"props": {"d": Property(Array(B))}},
        "untyped items": lambda B: {"props": {"d": Property(Element(items=B))}},
        "tuple items": lambda B: {"props": {"d": Property(Element(items=[String(), B]))}},
        "additionalItems": lambda B: {"props": {"d": Property(Element(items=[String()], additionalItems=B))}},
        "contains": lambda B: {"props": {"d": Property(Element(contains=B))}},
        "nested properties": lambda B: {"props": {"d": Property(Element(properties={"p": Property(B)}))}},
        "patternProperties": lambda B: {"props": {"d": Property(Element(patternProperties={"^x": B}))}},
        "additionalProperties": lambda B: {"props": {"d": Property(Element(additionalProperties=B))}},
        "propertyNames": lambda B: {"props": {"d": Property(Element(propertyNames=B))}},
        "dependencies": lambda B: {"props": {"d": Property(Element(dependencies={"k": B}))}},
        "anyOf": lambda B: {"props": {"d": Property(AnyOf(String(), B))}},
        "oneOf": lambda B: {"props": {"d": Property(OneOf(B, String()))}},
        "allOf": lambda B: {"props": {"d": Property(AllOf(Element(minProperties=1), B))}},
        "not": lambda B: {"props": {"d": Property(Not(B))}},
        "class patternProperties": lambda B: {"kw": {"patternProperties": {"^x": B}}},
        "class additionalProperties": lambda B: {"kw": {"additionalProperties": B}},
        "class propertyNames": lambda B: {"kw": {"propertyNames": B}},
        "class dependencies": lambda B: {"kw": {"dependencies": {"k": B}}},
        "deep": lambda B: {"props": {"d": Property(Array(AnyOf(Element(contains=Not(B)), String())))}},
    }


C11_GRAPHS = {
    # name: (n classes, edges (a depends on b), roots passed to orderer, cyclic?)
    "single": (1, [], [0], False),
    "chain": (3, [(0, 1), (1, 2)], [0], False),
    "diamond": (4, [(0, 1), (0, 2), (1, 3), (2, 3)], [0], False),
    "shared leaf": (3, [(0, 2), (1, 2)], [0, 1], False),
    "two roots": (4, [(0, 1), (2, 3)], [0, 2], False),
    "root given twice": (2, [(0, 1)], [0, 1, 0], False),
    "self cycle": (1, [(0, 0)], [0], True),
    "mutual": (2, [(0, 1), (1, 0)], [0], True),
    "cycle below root": (3, [(0, 1), (1, 2), (2, 1)], [0], True),
    "three cycle": (3, [(0, 1), (1, 2), (2, 0)], [0], True),
}


def build_graph(n, edges, wrapper):
    from statham.schema.elements import Object
    from statham.schema.elements.meta import ObjectMeta, ObjectClassDict
    from statham.schema.property import Property
    classes = [ObjectMeta(f"K{i}", (Object,), ObjectClassDict()) for i in range(n)]
    for j, (a, b) in enumerate(edges):
        spec = wrapper(classes[b])
        for pn, prop in spec.get("props", {}).items():
            classes[a].properties[f"{pn}{j}"] = prop
        for k, v in spec.get("kw", {}).items():
            cur = getattr(classes[a], k, None)
            if isinstance(cur, dict) and isinstance(v, dict):
                v = {**cur, **{f"{kk}{j}": vv for kk, vv in v.items()}}
            setattr(classes[a], k, v)
    return classes


def c11_order(run):
    from statham.serializers.orderer import orderer
    from statham.schema.exceptions import SchemaParseError
    wr = c11_wrappers()
    acc = Acc(run, "C11-order", f"{len(C11_GRAPHS)} dependency graphs (<= 4 classes; chains, diamonds, shared leaves, several roots, self/mutual/longer cycles) x {len(wr)} keyword positions; "
              "plus repeated calls after re-pointing a dependency")
    w = quiet()
    try:
        for gname, (n, edges, roots, cyclic) in C11_GRAPHS.items():
            for wname, wrapper in wr.items():
                if cyclic is False and not edges and wname != "property":
                    continue
                if wname.startswith("class ") and len([e for e in edges if e[0] == 0]) > 1 and wname in ("class additionalProperties", "class propertyNames"):
                    continue   # a single-valued class keyword cannot hold two dependencies
                key = f"{gname}/{wname}"
                try:
                    classes = build_graph(n, edges, wrapper)
                except Exception as ex:
                    continue
                acc.case(key)
                try:
                    order = list(orderer(*[classes[r] for r in roots]))
                except SchemaParseError:
                    if not cyclic:
                        acc.fail(key, "acyclic graph refused with the schema-parse error")
                    continue
                except BaseException as ex:
                    acc.fail(key, f"{type(ex).__name__} from the ordering routine ({'cyclic' if cyclic else 'acyclic'} graph)")
                    continue
                if cyclic:
                    acc.fail(key, f"cyclic dependencies were not refused: yielded {[c.__name__ for c in order]}")
                    continue
                names = [c.__name__ for c in order]
                reach = set()
                stack = list(roots)
                while stack:
                    a = stack.pop()
                    if a not in reach:
                        reach.add(a)
                        stack.extend(b for (x, b) in edges if x == a)
                want = {f"K{i}" for i in reach}
                if sorted(names) != sorted(want):
                    acc.fail(key, f"yielded {names}, reachable classes are {sorted(want)} (each exactly once)")
                    continue
                pos = {nm: i for i, nm in enumerate(names)}
                for a, b in edges:
                    if a in reach and pos[f"K{b}"] > pos[f"K{a}"]:
                        acc.fail(key, f"K{a} is yielded before its dependency K{b}: {names}")
        # histories: a second call after the graph changed
        from statham.schema.property import Property
        from statham.schema.elements import Array

        def first_call(key, cls):
            try:
                list(orderer(cls))
                return True
            except BaseException as ex:
                acc.fail(key, f"first ordering call raised {type(ex).__name__}")
                return False
        classes = build_graph(3, [(0, 1)], wr["property"])
        acc.case("history/re-pointed")
        if first_call("history/re-pointed", classes[0]):
            classes[0].properties["d0"] = Property(classes[2])
            try:
                names = [c.__name__ for c in orderer(classes[0])]
                if names != ["K2", "K0"]:
                    acc.fail("history/re-pointed", f"after re-pointing K0's dependency from K1 to K2 the order is {names}, expected ['K2', 'K0']")
            except BaseException as ex:
                acc.fail("history/re-pointed", f"second ordering call raised {type(ex).__name__}")
        classes = build_graph(2, [(0, 1)], wr["items"])
        acc.case("history/cycle-closed-later")
        if first_call("history/cycle-closed-later", classes[0]):
            classes[1].properties["back"] = Property(Array(classes[0]))
            try:
                names = [c.__name__ for c in orderer(classes[0])]
                acc.fail("history/cycle-closed-later", f"cycle closed after a first call was not refused: {names}")
            except SchemaParseError:
                pass
            except BaseException as ex:
                acc.fail("history/cycle-closed-later", f"{type(ex).__name__} instead of the schema-parse error")
        # two families with equal-shaped, differently named classes
        def family(leaf):
            from statham.schema.elements import Object, String
            from statham.schema.elements.meta import ObjectMeta, ObjectClassDict
            L = ObjectMeta(leaf, (Object,), ObjectClassDict())
            L.properties["n"] = Property(String())
            R = ObjectMeta("Root", (Object,), ObjectClassDict())
            R.properties["pet"] = Property(L)
            return R
        acc.case("history/two-families")
        first_call("history/two-families", family("Cat"))
        try:
            names = [c.__name__ for c in orderer(family("Dog"))]
            if names != ["Dog", "Root"]:
                acc.fail("history/two-families", f"second family ordered as {names}, expected ['Dog', 'Root']")
        except BaseException as ex:
            acc.fail("history/two-families", f"second family: {type(ex).__name__}")
    finally:
        w.__exit__(None, None, None)
    return acc.result()


# ------------------------------------------------------------------ C12 names
NAME_ALPHABET = ["A", "b", "1", "_", "-", " ", ".", "$", "é", "²", "٣", "１", "ﬁ", "\t", "日", "@", "/", "'", '"', "\\"]
NAME_WORDS = ["class", "def", "None", "True", "self", "_dict", "__init__", "__class__", "properties", "default", "a-b", "a_b", "a b", "x.y", "$ref",
              "6_leading_number", "10", "", " ", "__", "Ünïcode", "camelCase", "with space", "import", "async", "match", "print", "type", "٣", "１st", "९_lives"]


def names_pool(tier):
    out = list(NAME_WORDS)
    for a in NAME_ALPHABET:
        out.append(a)
    for a, b in itertools.product(NAME_ALPHABET, repeat=2):
        out.append(a + b)
    if tier == "thorough":
        for t in itertools.product(NAME_ALPHABET[:12], repeat=3):
            out.append("".join(t))
    seen, res = set(), []
    for n in out:
        if n not in seen:
            seen.add(n)
            res.append(n)
    return res


def ident_ok(s):
    return s.isidentifier() and not keyword.iskeyword(s)


def c12_names(run):
    from statham.schema.parser import parse_element, _parse_attribute_name
    from statham.schema.elements.meta import RESERVED_PROPERTIES
    names = names_pool(run.tier)
    acc = Acc(run, "C12-names", f"{len(names)} property names (all strings of length <= 2 over a {len(NAME_ALPHABET)}-symbol class alphabet + keyword/reserved/odd words): "
              "attribute name is an identifier, not keyword/reserved; JSON name recorded; generated module compiles and rebinds the name")
    w = quiet()
    try:
        for n in names:
            key = jkey(n)
            acc.case(key)
            try:
                a = _parse_attribute_name(n)
            except Exception as ex:
                acc.fail(key, f"_parse_attribute_name raised {type(ex).__name__}: {ex}")
                continue
            if not ident_ok(a) or a in RESERVED_PROPERTIES:
                tags = []
                acc.fail(key, f"maps to {a!r}, which is not a usable attribute name (identifier: {a.isidentifier()}, keyword: {keyword.iskeyword(a)}, reserved: {a in RESERVED_PROPERTIES})",
                         extra={"tags": tags})
                continue
            try:
                E = parse_element({"type": "object", "title": "Holder", "properties": {n: {"type": "string"}}})
                ps = list(E.properties.values())
                if len(ps) != 1 or ps[0].source != n or ps[0].name != a:
                    acc.fail(key, f"parsed class records name={ps[0].name!r} source={ps[0].source!r}, expected attribute {a!r} / JSON name {n!r}")
                    continue
                k1, r = outcome(E, {n: "v"})
                if k1 != "ok" or getattr(r, a) != "v":
                    acc.fail(key, f"value under JSON name {n!r} not readable as attribute {a!r}")
                k2, _ = outcome(E, {n: 1})
                if k2 == "ok":
                    acc.fail(key, f"property schema for JSON name {n!r} is not applied (integer accepted for a string property)")
                src, ns = exec_generated([E])
                G = ns["Holder"]
                if not (G == E) or list(G.properties.values())[0].source != n:
                    tags = ["D32-shape"] if a.startswith("__") and not a.endswith("__") else []
                    acc.fail(key + " [python]", "generated class differs from the parsed one (name/source lost)", extra={"tags": tags})
            except Exception as ex:
                acc.fail(key, f"{type(ex).__name__}: {ex}")
    finally:
        w.__exit__(None, None, None)
    return acc.result()


def c12_siblings(run):
    from statham.schema.parser import parse_element, _parse_attribute_name
    pool = ["a-b", "a_b", "a b", "a.b", "ab", "", "blank", "class", "class_", "1", "_1", "é", "e", "A", "a"]
    pairs = list(itertools.combinations(pool, 2))
    acc = Acc(run, "C12-siblings", f"{len(pairs)} pairs of sibling property names: two different JSON names never collapse onto one attribute")
    w = quiet()
    try:
        for x, y in pairs:
            key = jkey([x, y])
            acc.case(key)
            S = {"type": "object", "title": "Sib", "properties": {x: {"type": "string"}, y: {"type": "integer"}}}
            try:
                E = parse_element(copy.deepcopy(S))
            except Exception as ex:
                acc.fail(key, f"parse raised {type(ex).__name__}: {ex}")
                continue
            sources = sorted(p.source for p in E.properties.values())
            if sources != sorted([x, y]):
                acc.fail(key, f"sibling names {x!r} and {y!r} collapse: class has properties for {sources}",
                         extra={"tags": ["D10-shape"] if _parse_attribute_name(x) == _parse_attribute_name(y) else []})
    finally:
        w.__exit__(None, None, None)
    return acc.result()


TITLES = ["Plain", "two words", "snake_case", "kebab-case", "camelCase", "ALLCAPS", "with1digit", "1abc", "日本", "_", "", "none", "None", "true",
          "string", "String", "object", "Object", "list", "List", "any", "Any", "union", "Union", "maybe", "Maybe", "property", "Property", "element",
          "Element", "array", "Array", "class", "def", "é", "a.b", "x y z", "T", "t"]


def c12_titles(run):
    from statham.schema.parser import parse
    acc = Acc(run, "C12-titles", f"{len(TITLES)} titles alone and in same-title pairs: class name is an identifier, not a keyword, distinct from every other class and from names the generated module imports or uses")
    w = quiet()
    try:
        for t in TITLES:
            key = jkey(t)
            acc.case(key)
            doc = {"type": "object", "title": "Root", "properties": {
                "p": {"type": "object", "title": t, "properties": {"a": {"type": "string"}}},
                "q": {"type": "object", "title": t, "properties": {"b": {"type": "integer"}}},
                "r": {"type": "array", "items": {"type": "string"}}, "s": {"anyOf": [{"type": "string"}, {"type": "null"}]}}}
            try:
                els = parse(copy.deepcopy(doc))
            except Exception as ex:
                if t == "":
                    continue      # an empty title is "no title": refused by design
                acc.fail(key, f"parse raised {type(ex).__name__}: {ex}", extra={"tags": ["D12-shape"]})
                continue
            root = els[0]
            classes = [root] + [p.element for p in root.properties.values() if isinstance(p.element, type)]
            names = [c.__name__ for c in classes]
            bad = [n for n in names if not ident_ok(n) or n in ("None", "True", "False")]
            if bad:
                acc.fail(key, f"title {t!r} gives class name(s) {bad!r}: not a valid class name", extra={"tags": ["D12-shape"]})
                continue
            if len(set(names)) != len(names):
                acc.fail(key, f"class names not distinct: {names}")
                continue
            try:
                src, ns = exec_generated(els)
                for c in classes:
                    G = ns.get(c.__name__)
                    if not isinstance(G, type(root)) or not (G == c):
                        acc.fail(key + " [python]", f"generated module: name {c.__name__} is not bound to a class equal to the parsed one (shadowed import or keyword?)",
                                 extra={"tags": ["D12-shape"]})
                        break
            except Exception as ex:
                acc.fail(key + " [python]", f"generated module failed: {type(ex).__name__}: {ex}", extra={"tags": ["D12-shape"]})
    finally:
        w.__exit__(None, None, None)
    return acc.result()
