"""Bounded stand-ins: C20 C11 C12 C17 C18 C19 C02 C03 C06."""
import copy
import itertools
import json
import keyword
import os
import shutil
import tempfile

from . import gen, schemas
from .props import Acc, quiet, outcome, jkey, edesc, element_cases, serial, exec_generated, registered_formats
from .props2 import plain
from runtime.monitor import obs
from spec import draft6, pyspec

UNSUPPORTED = ["$defs", "if", "then", "else", "unevaluatedItems", "unevaluatedProperties"]


# ------------------------------------------------------------------ C20
def c20_positions(carrier):
    """Documents placing `carrier` at every schema position; (name, doc, via_parse_only)."""
    c = lambda: copy.deepcopy(carrier)
    return [
        ("root", c()),
        ("properties", {"properties": {"a": c()}}),
        ("patternProperties", {"patternProperties": {"^a": c()}}),
        ("additionalProperties", {"additionalProperties": c()}),
        ("propertyNames", {"propertyNames": c()}),
        ("dependencies", {"dependencies": {"a": c()}}),
        ("items", {"items": c()}),
        ("tuple items", {"items": [{"type": "string"}, c()]}),
        ("additionalItems", {"items": [{"type": "string"}], "additionalItems": c()}),
        ("additionalItems (single items)", {"items": {"type": "string"}, "additionalItems": c()}),
        ("additionalItems (no items)", {"additionalItems": c()}),
        ("additionalItems (typed array)", {"type": "array", "items": {"type": "string"}, "additionalItems": c()}),
        ("additionalProperties (with properties)", {"properties": {"a": {"type": "string"}}, "additionalProperties": c()}),
        ("object class patternProperties", {"type": "object", "title": "Holder", "patternProperties": {"^a": c()}}),
        ("object class dependencies", {"type": "object", "title": "Holder", "dependencies": {"a": c()}}),
        ("object class propertyNames", {"type": "object", "title": "Holder", "propertyNames": c()}),
        ("contains", {"contains": c()}),
        ("anyOf", {"anyOf": [{"type": "string"}, c()]}),
        ("oneOf", {"oneOf": [c(), {"type": "string"}]}),
        ("allOf", {"allOf": [c()]}),
        ("not", {"not": c()}),
        ("allOf with siblings", {"type": "string", "allOf": [c()], "minLength": 1}),
        ("typed array items", {"type": "array", "items": c()}),
        ("object class property", {"type": "object", "title": "Holder", "properties": {"a": c()}}),
        ("object class additionalProperties", {"type": "object", "title": "Holder", "additionalProperties": c()}),
        ("multi-type", {"type": ["array", "null"], "items": c()}),
        ("nested twice", {"properties": {"a": {"items": {"anyOf": [c()]}}}}),
        ("definitions", {"type": "string", "definitions": {"d": c()}}),
    ]


def c20_unsupported(run):
    from statham.schema.parser import parse
    from statham.schema.exceptions import FeatureNotImplementedError
    carriers = [{"type": "string"}, {}, {"type": "object", "title": "Carrier", "properties": {"x": {"type": "string"}}},
                {"type": "array"}, {"type": ["string", "integer"]}, {"type": "integer", "minimum": 0}]
    acc = Acc(run, "C20-unsupported", f"{len(carriers)} carrier schemas x 28 schema positions x {len(UNSUPPORTED)} unsupported keywords through parse(); "
              "literal positions (default/const/enum contents, property names) must not trigger; self-/mutual/long reference cycles")
    w = quiet()
    try:
        for carrier in carriers:
            for kw in UNSUPPORTED:
                bad = {**copy.deepcopy(carrier), kw: ({"type": "string"} if kw not in ("$defs",) else {"x": {"type": "string"}})}
                for (pname, doc), (_, clean) in zip(c20_positions(bad), c20_positions(carrier)):
                    key = f"{kw}@{pname}/{jkey(carrier)}"
                    acc.case(key)
                    try:
                        parse(copy.deepcopy(doc))
                        acc.fail(key, f"schema using unsupported `{kw}` at position {pname} was parsed without error (silently ignored)")
                    except FeatureNotImplementedError:
                        pass
                    except Exception as ex:
                        acc.fail(key, f"unsupported `{kw}` at {pname}: raised {type(ex).__name__} instead of FeatureNotImplementedError: {ex}")
                    try:
                        parse(copy.deepcopy(clean))
                    except Exception as ex:
                        acc.fail(key + " [without]", f"the same schema without `{kw}` does not parse: {type(ex).__name__}: {ex}")
        # literals never trigger
        for kw in UNSUPPORTED:
            for doc in [{"default": {kw: 1}}, {"const": {kw: {"x": 1}}}, {"enum": [{kw: True}, kw]}, {"properties": {kw: {"type": "string"}}},
                        {"required": [kw]}, {"dependencies": {kw: ["a"]}}, {"type": "object", "title": "L", "properties": {kw: {"default": {kw: 1}}}}]:
                key = f"literal {kw}: {jkey(doc)}"
                acc.case(key)
                try:
                    parse(copy.deepcopy(doc))
                except Exception as ex:
                    acc.fail(key, f"`{kw}` used as a literal / property name was refused: {type(ex).__name__}: {ex}")
        # reference cycles (materialised documents are cyclic dict graphs)
        def self_cycle():
            d = {"type": "object", "title": "Node", "properties": {}}
            d["properties"]["next"] = d
            return d

        def mutual():
            a = {"type": "object", "title": "A", "properties": {}}
            b = {"type": "object", "title": "B", "properties": {"a": a}}
            a["properties"]["b"] = b
            return a

        def long_cycle(n=5):
            nodes = [{"type": "object", "title": f"N{i}", "properties": {}} for i in range(n)]
            for i in range(n):
                nodes[i]["properties"]["nx"] = nodes[(i + 1) % n]
            return nodes[0]

        def via_items():
            d = {"type": "array"}
            d["items"] = {"anyOf": [d, {"type": "string"}]}
            return d

        def in_definitions():
            d = {"type": "object", "title": "Def", "properties": {}}
            d["properties"]["me"] = d
            return {"type": "string", "definitions": {"d": d}}
        for mk in (self_cycle, mutual, long_cycle, via_items, in_definitions):
            key = f"cycle:{mk.__name__}"
            acc.case(key)
            try:
                parse(mk())
                acc.fail(key, "recursive document was parsed without error")
            except FeatureNotImplementedError:
                pass
            except BaseException as ex:
                acc.fail(key, f"recursive document: {type(ex).__name__} instead of FeatureNotImplementedError")
    finally:
        w.__exit__(None, None, None)
    return acc.result()


def c20_cli_cycles(run):
    """Real `$ref` cycles through files and the generator entry point."""
    from statham.__main__ import main
    from statham.schema.exceptions import FeatureNotImplementedError, SchemaParseError
    acc = Acc(run, "C20-cli-cycles", "self-, mutual and length-4 `$ref` cycles in temp files through statham.__main__.main")
    tmp = tempfile.mkdtemp(prefix="pyvc_c20_")
    w = quiet()
    try:
        docs = {
            "self.json": {"type": "object", "title": "S", "properties": {"me": {"$ref": "#"}}},
            "mutual.json": {"type": "object", "title": "M", "properties": {"o": {"$ref": "#/definitions/o"}},
                            "definitions": {"o": {"type": "object", "title": "O", "properties": {"m": {"$ref": "#"}}}}},
            "long.json": {"type": "object", "title": "L0", "properties": {"n": {"$ref": "#/definitions/a"}},
                          "definitions": {"a": {"type": "object", "title": "A", "properties": {"n": {"$ref": "#/definitions/b"}}},
                                          "b": {"type": "object", "title": "B", "properties": {"n": {"$ref": "#/definitions/c"}}},
                                          "c": {"type": "object", "title": "C", "properties": {"n": {"$ref": "#"}}}}},
        }
        for name, doc in docs.items():
            path = os.path.join(tmp, name)
            json.dump(doc, open(path, "w"))
            acc.case(name)
            try:
                main(path + "#/")
                acc.fail(name, "document with recursive references generated a module")
            except FeatureNotImplementedError:
                pass
            except BaseException as ex:
                acc.fail(name, f"recursive references: {type(ex).__name__} instead of the library's not-implemented error")
    finally:
        shutil.rmtree(tmp, ignore_errors=True)
        w.__exit__(None, None, None)
    return acc.result()


# ------------------------------------------------------------------ C11
def c11_wrappers():
    """Ways of placing a dependency on class B inside the declaration of class A: name -> (property element | class kwargs)."""
    from statham.schema.elements import AllOf, AnyOf, Array, Element, Not, OneOf, String
    from statham.schema.property import Property
    return {
        "property": lambda B: {"props": {"d": Property(B)}},
        "items": lambda B: {"props": {"d": Property(Array(B))}},
        "untyped items": lambda B: {"props": {"d": Property(Element(items=B))}},
        "tuple items": lambda B: {"props": {"d": Property(Element(items=[String(), B]))}},
        "additionalItems": lambda B: {"props": {"d": Property(Element(items=[String()], additionalItems=B))}},
        "additionalItems (single items)": lambda B: {"props": {"d": Property(Array(String(), additionalItems=B))}},
        "additionalItems (no items)": lambda B: {"props": {"d": Property(Element(additionalItems=B))}},
        "contains": lambda B: {"props": {"d": Property(Element(contains=B))}},
        "nested properties": lambda B: {"props": {"d": Property(Element(properties={"p": Property(B)}))}},
        "patternProperties": lambda B: {"props": {"d": Property(Element(patternProperties={"^x": B}))}},
        "additionalProperties": lambda B: {"props": {"d": Property(Element(additionalProperties=B))}},
        "propertyNames": lambda B: {"props": {"d": Property(Element(propertyNames=B))}},
        "dependencies": lambda B: {"props": {"d": Property(Element(dependencies={"k": B}))}},
        "anyOf": lambda B: {"props": {"d": Property(AnyOf(String(), B))}},
        "oneOf": lambda B: {"props": {"d": Property(OneOf(B, String()))}},
        "allOf": lambda B: {"props": {"d": Property(AllOf(Element(minProperties=1), B))}},
        "not": lambda B: {"props": {"d": Property(Not(B))}},
        "class patternProperties": lambda B: {"kw": {"patternProperties": {"^x": B}}},
        "class additionalProperties": lambda B: {"kw": {"additionalProperties": B}},
        "class propertyNames": lambda B: {"kw": {"propertyNames": B}},
        "class dependencies": lambda B: {"kw": {"dependencies": {"k": B}}},
        "deep": lambda B: {"props": {"d": Property(Array(AnyOf(Element(contains=Not(B)), String())))}},
    }


C11_GRAPHS = {
    # name: (n classes, edges (a depends on b), roots passed to orderer, cyclic?)
    "single": (1, [], [0], False),
    "chain": (3, [(0, 1), (1, 2)], [0], False),
    "diamond": (4, [(0, 1), (0, 2), (1, 3), (2, 3)], [0], False),
    "shared leaf": (3, [(0, 2), (1, 2)], [0, 1], False),
    "two roots": (4, [(0, 1), (2, 3)], [0, 2], False),
    "root given twice": (2, [(0, 1)], [0, 1, 0], False),
    "self cycle": (1, [(0, 0)], [0], True),
    "mutual": (2, [(0, 1), (1, 0)], [0], True),
    "cycle below root": (3, [(0, 1), (1, 2), (2, 1)], [0], True),
    "three cycle": (3, [(0, 1), (1, 2), (2, 0)], [0], True),
    "cycle next to a leaf": (4, [(0, 1), (0, 2), (2, 3), (3, 2)], [0], True),
    "self cycle next to a dependency": (3, [(0, 1), (0, 2), (2, 2)], [0], True),
    "cycle and an unrelated root": (3, [(0, 1), (1, 0)], [2, 0], True),
}


def build_graph(n, edges, wrapper):
    from statham.schema.elements import Object
    from statham.schema.elements.meta import ObjectMeta, ObjectClassDict
    from statham.schema.property import Property
    classes = [ObjectMeta(f"K{i}", (Object,), ObjectClassDict()) for i in range(n)]
    for j, (a, b) in enumerate(edges):
        spec = wrapper(classes[b])
        for pn, prop in spec.get("props", {}).items():
            classes[a].properties[f"{pn}{j}"] = prop
        for k, v in spec.get("kw", {}).items():
            cur = getattr(classes[a], k, None)
            if isinstance(cur, dict) and isinstance(v, dict):
                v = {**cur, **{f"{kk}{j}": vv for kk, vv in v.items()}}
            setattr(classes[a], k, v)
    return classes


def c11_all_digraphs(n, loops=True):
    """Every directed graph on n labelled nodes (self loops included unless loops=False), root 0; cyclic = a cycle is
    reachable from the root."""
    pairs = [(a, b) for a in range(n) for b in range(n) if loops or a != b]
    for mask in range(1 << len(pairs)):
        edges = [pairs[i] for i in range(len(pairs)) if mask >> i & 1]
        adj = {}
        for a, b in edges:
            adj.setdefault(a, []).append(b)
        reach, stack = set(), [0]
        while stack:
            a = stack.pop()
            if a not in reach:
                reach.add(a)
                stack.extend(adj.get(a, []))
        # cycle among reachable nodes: DFS colours
        colour = {}

        def dfs(u):
            colour[u] = 1
            for v in adj.get(u, []):
                if colour.get(v) == 1 or (colour.get(v) is None and dfs(v)):
                    return True
            colour[u] = 2
            return False
        yield f"all{n}/{mask:x}", (n, edges, [0], dfs(0))


def c11_order(run):
    from statham.serializers.orderer import orderer
    from statham.schema.exceptions import SchemaParseError
    wr = c11_wrappers()
    graphs = dict(C11_GRAPHS)
    exhaustive = ""
    only_wrappers = {}
    if run.tier != "quick":
        # thorough: every digraph on <= 3 classes under every keyword position, every digraph on 4 classes under two positions
        for n in (1, 2, 3):
            graphs.update(dict(c11_all_digraphs(n)))
        g4 = dict(c11_all_digraphs(4, loops=False))
        graphs.update(g4)
        only_wrappers = {k: ("property", "items", "anyOf", "class dependencies") for k in g4}
        exhaustive = ("; exhaustively: all digraphs (self loops included) on <= 3 classes x every position, all 4096 loop-free digraphs on 4 classes x "
                      "{property, items, anyOf, class dependencies}")
    acc = Acc(run, "C11-order", f"{len(C11_GRAPHS)} named dependency graphs (<= 4 classes; chains, diamonds, shared leaves, several roots, self/mutual/longer cycles) x {len(wr)} keyword positions"
              f"{exhaustive}; plus repeated calls after re-pointing a dependency")
    w = quiet()
    try:
        for gname, (n, edges, roots, cyclic) in graphs.items():
            for wname, wrapper in wr.items():
                if gname in only_wrappers and wname not in only_wrappers[gname]:
                    continue
                if cyclic is False and not edges and wname != "property":
                    continue
                if wname.startswith("class ") and max([len([e for e in edges if e[0] == a]) for a in range(n)] or [0]) > 1 and wname in ("class additionalProperties", "class propertyNames"):
                    continue   # a single-valued class keyword cannot hold two dependencies
                key = f"{gname}/{wname}"
                try:
                    classes = build_graph(n, edges, wrapper)
                except Exception as ex:
                    continue
                acc.case(key)
                order = []
                try:
                    for c_ in orderer(*[classes[r] for r in roots]):
                        order.append(c_)
                except SchemaParseError:
                    if not cyclic:
                        acc.fail(key, "acyclic graph refused with the schema-parse error")
                    elif order:
                        acc.fail(key, f"cyclic graph: {[c_.__name__ for c_ in order]} was yielded before the schema-parse error (a partial order instead of a refusal)")
                    continue
                except BaseException as ex:
                    acc.fail(key, f"{type(ex).__name__} from the ordering routine ({'cyclic' if cyclic else 'acyclic'} graph)")
                    continue
                if cyclic:
                    acc.fail(key, f"cyclic dependencies were not refused: yielded {[c.__name__ for c in order]}")
                    continue
                names = [c.__name__ for c in order]
                reach = set()
                stack = list(roots)
                while stack:
                    a = stack.pop()
                    if a not in reach:
                        reach.add(a)
                        stack.extend(b for (x, b) in edges if x == a)
                want = {f"K{i}" for i in reach}
                if sorted(names) != sorted(want):
                    acc.fail(key, f"yielded {names}, reachable classes are {sorted(want)} (each exactly once)")
                    continue
                pos = {nm: i for i, nm in enumerate(names)}
                for a, b in edges:
                    if a in reach and pos[f"K{b}"] > pos[f"K{a}"]:
                        acc.fail(key, f"K{a} is yielded before its dependency K{b}: {names}")
        # histories: a second call after the graph changed
        from statham.schema.property import Property
        from statham.schema.elements import Array

        def first_call(key, cls):
            try:
                list(orderer(cls))
                return True
            except BaseException as ex:
                acc.fail(key, f"first ordering call raised {type(ex).__name__}")
                return False
        classes = build_graph(3, [(0, 1)], wr["property"])
        acc.case("history/re-pointed")
        if first_call("history/re-pointed", classes[0]):
            classes[0].properties["d0"] = Property(classes[2])
            try:
                names = [c.__name__ for c in orderer(classes[0])]
                if names != ["K2", "K0"]:
                    acc.fail("history/re-pointed", f"after re-pointing K0's dependency from K1 to K2 the order is {names}, expected ['K2', 'K0']")
            except BaseException as ex:
                acc.fail("history/re-pointed", f"second ordering call raised {type(ex).__name__}")
        classes = build_graph(2, [(0, 1)], wr["items"])
        acc.case("history/cycle-closed-later")
        if first_call("history/cycle-closed-later", classes[0]):
            classes[1].properties["back"] = Property(Array(classes[0]))
            try:
                names = [c.__name__ for c in orderer(classes[0])]
                acc.fail("history/cycle-closed-later", f"cycle closed after a first call was not refused: {names}")
            except SchemaParseError:
                pass
            except BaseException as ex:
                acc.fail("history/cycle-closed-later", f"{type(ex).__name__} instead of the schema-parse error")
        # two families with equal-shaped, differently named classes
        def family(leaf):
            from statham.schema.elements import Object, String
            from statham.schema.elements.meta import ObjectMeta, ObjectClassDict
            L = ObjectMeta(leaf, (Object,), ObjectClassDict())
            L.properties["n"] = Property(String())
            R = ObjectMeta("Root", (Object,), ObjectClassDict())
            R.properties["pet"] = Property(L)
            return R
        acc.case("history/two-families")
        first_call("history/two-families", family("Cat"))
        try:
            names = [c.__name__ for c in orderer(family("Dog"))]
            if names != ["Dog", "Root"]:
                acc.fail("history/two-families", f"second family ordered as {names}, expected ['Dog', 'Root']")
        except BaseException as ex:
            acc.fail("history/two-families", f"second family: {type(ex).__name__}")
    finally:
        w.__exit__(None, None, None)
    return acc.result()


# ------------------------------------------------------------------ C12 names
NAME_ALPHABET = ["A", "b", "1", "_", "-", " ", ".", "$", "é", "²", "٣", "１", "ﬁ", "\t", "日", "@", "/", "'", '"', "\\"]
NAME_WORDS = ["class", "def", "None", "True", "self", "_dict", "__init__", "__class__", "properties", "default", "a-b", "a_b", "a b", "x.y", "$ref",
              "6_leading_number", "10", "", " ", "__", "Ünïcode", "camelCase", "with space", "import", "async", "match", "print", "type", "٣", "１st", "९_lives"]


def _fullwidth(w):
    return "".join(chr(ord(c) + 0xFEE0) if "!" <= c <= "~" else c for c in w)


# compatibility spellings (NFKC-equal to a keyword / reserved / dunder name): fullwidth forms, ligatures, superscripts
NAME_WORDS_COMPAT = [_fullwidth(w) for w in ("class", "def", "None", "self", "_dict", "dict", "__init__", "__class__", "properties", "default", "import", "a_b", "x")] + \
    ["_" + _fullwidth("dict"), "ｄict", "cl\uff41ss", "\ufb01", "\ufb01le", "x\u00b2", "\u2460", "\u212b", "de\ufb00"]


def names_pool(tier):
    out = list(NAME_WORDS) + list(NAME_WORDS_COMPAT)
    for a in NAME_ALPHABET:
        out.append(a)
    for a, b in itertools.product(NAME_ALPHABET, repeat=2):
        out.append(a + b)
    if tier == "thorough":
        for t in itertools.product(NAME_ALPHABET[:12], repeat=3):
            out.append("".join(t))
    seen, res = set(), []
    for n in out:
        if n not in seen:
            seen.add(n)
            res.append(n)
    return res


def ident_ok(s):
    return s.isidentifier() and not keyword.iskeyword(s)


def c12_names(run):
    from statham.schema.parser import parse_element, _parse_attribute_name
    from statham.schema.elements.meta import RESERVED_PROPERTIES
    names = names_pool(run.tier)
    acc = Acc(run, "C12-names", f"{len(names)} property names (all strings of length <= 2 over a {len(NAME_ALPHABET)}-symbol class alphabet + keyword/reserved/odd words): "
              "attribute name is an identifier, not keyword/reserved; JSON name recorded; generated module compiles and rebinds the name")
    w = quiet()
    try:
        for n in names:
            key = jkey(n)
            acc.case(key)
            try:
                a = _parse_attribute_name(n)
            except Exception as ex:
                acc.fail(key, f"_parse_attribute_name raised {type(ex).__name__}: {ex}")
                continue
            if not ident_ok(a) or a in RESERVED_PROPERTIES:
                tags = []
                acc.fail(key, f"maps to {a!r}, which is not a usable attribute name (identifier: {a.isidentifier()}, keyword: {keyword.iskeyword(a)}, reserved: {a in RESERVED_PROPERTIES})",
                         extra={"tags": tags})
                continue
            try:
                R = parse_element({"type": "object", "title": "ReqOnly", "required": [n]})
                rs = list(R.properties.values())
                if len(rs) != 1 or rs[0].source != n or rs[0].name != a:
                    acc.fail(key + " [required only]", f"a name listed only in `required` is recorded as name={rs[0].name if rs else None!r} source={rs[0].source if rs else None!r}, "
                                                      f"expected attribute {a!r} / JSON name {n!r}")
                else:
                    k1, r = outcome(R, {n: 1})
                    k2, _ = outcome(R, {})
                    if k1 != "ok" or k2 == "ok" or getattr(r, a) != 1:
                        acc.fail(key + " [required only]", f"required-only JSON name {n!r}: value under that name {k1}, empty object {k2}")
            except Exception as ex:
                acc.fail(key + " [required only]", f"{type(ex).__name__}: {ex}")
            try:
                E = parse_element({"type": "object", "title": "Holder", "properties": {n: {"type": "string"}}})
                ps = list(E.properties.values())
                if len(ps) != 1 or ps[0].source != n or ps[0].name != a:
                    acc.fail(key, f"parsed class records name={ps[0].name!r} source={ps[0].source!r}, expected attribute {a!r} / JSON name {n!r}")
                    continue
                k1, r = outcome(E, {n: "v"})
                if k1 != "ok" or getattr(r, a) != "v":
                    acc.fail(key, f"value under JSON name {n!r} not readable as attribute {a!r}")
                k2, _ = outcome(E, {n: 1})
                if k2 == "ok":
                    acc.fail(key, f"property schema for JSON name {n!r} is not applied (integer accepted for a string property)")
                src, ns = exec_generated([E])
                G = ns["Holder"]
                if not (G == E) or list(G.properties.values())[0].source != n:
                    tags = ["D32-shape"] if a.startswith("__") and not a.endswith("__") else []
                    acc.fail(key + " [python]", "generated class differs from the parsed one (name/source lost)", extra={"tags": tags})
            except Exception as ex:
                acc.fail(key, f"{type(ex).__name__}: {ex}")
    finally:
        w.__exit__(None, None, None)
    return acc.result()


def c12_siblings(run):
    from statham.schema.parser import parse_element, _parse_attribute_name
    pool = ["a-b", "a_b", "a b", "a.b", "ab", "", "blank", "class", "class_", "1", "_1", "é", "e", "A", "a"]
    pairs = list(itertools.combinations(pool, 2))
    acc = Acc(run, "C12-siblings", f"{len(pairs)} pairs of sibling property names: two different JSON names never collapse onto one attribute")
    w = quiet()
    try:
        for x, y in pairs:
            key = jkey([x, y])
            acc.case(key)
            S = {"type": "object", "title": "Sib", "properties": {x: {"type": "string"}, y: {"type": "integer"}}}
            try:
                E = parse_element(copy.deepcopy(S))
            except Exception as ex:
                acc.fail(key, f"parse raised {type(ex).__name__}: {ex}")
                continue
            sources = sorted(p.source for p in E.properties.values())
            if sources != sorted([x, y]):
                acc.fail(key, f"sibling names {x!r} and {y!r} collapse: class has properties for {sources}",
                         extra={"tags": ["D10-shape"] if _parse_attribute_name(x) == _parse_attribute_name(y) else []})
    finally:
        w.__exit__(None, None, None)
    return acc.result()


TITLES = ["Plain", "two words", "snake_case", "kebab-case", "camelCase", "ALLCAPS", "with1digit", "1abc", "日本", "_", "", "none", "None", "true",
          "string", "String", "object", "Object", "list", "List", "any", "Any", "union", "Union", "maybe", "Maybe", "property", "Property", "element",
          "Element", "array", "Array", "class", "def", "é", "a.b", "x y z", "T", "t"]


def c12_titles(run):
    from statham.schema.parser import parse
    acc = Acc(run, "C12-titles", f"{len(TITLES)} titles alone and in same-title pairs: class name is an identifier, not a keyword, distinct from every other class and from names the generated module imports or uses")
    w = quiet()
    try:
        for t in TITLES:
            key = jkey(t)
            acc.case(key)
            doc = {"type": "object", "title": "Root", "properties": {
                "p": {"type": "object", "title": t, "properties": {"a": {"type": "string"}}},
                "q": {"type": "object", "title": t, "properties": {"b": {"type": "integer"}}},
                "r": {"type": "array", "items": {"type": "string"}}, "s": {"anyOf": [{"type": "string"}, {"type": "null"}]}}}
            try:
                els = parse(copy.deepcopy(doc))
            except Exception as ex:
                if t == "":
                    continue      # an empty title is "no title": refused by design
                acc.fail(key, f"parse raised {type(ex).__name__}: {ex}", extra={"tags": ["D12-shape"]})
                continue
            root = els[0]
            classes = [root] + [p.element for p in root.properties.values() if isinstance(p.element, type)]
            names = [c.__name__ for c in classes]
            bad = [n for n in names if not ident_ok(n) or n in ("None", "True", "False")]
            if bad:
                acc.fail(key, f"title {t!r} gives class name(s) {bad!r}: not a valid class name", extra={"tags": ["D12-shape"]})
                continue
            if len(set(names)) != len(names):
                acc.fail(key, f"class names not distinct: {names}")
                continue
            try:
                src, ns = exec_generated(els)
                for c in classes:
                    G = ns.get(c.__name__)
                    if not isinstance(G, type(root)) or not (G == c):
                        acc.fail(key + " [python]", f"generated module: name {c.__name__} is not bound to a class equal to the parsed one (shadowed import or keyword?)",
                                 extra={"tags": ["D12-shape"]})
                        break
            except Exception as ex:
                acc.fail(key + " [python]", f"generated module failed: {type(ex).__name__}: {ex}", extra={"tags": ["D12-shape"]})
    finally:
        w.__exit__(None, None, None)
    return acc.result()


# ------------------------------------------------------------------ C17 equality
def c17_variants():
    """Element makers: the pool plus one-keyword / one-literal / one-property-attribute / class variations."""
    from statham.schema.elements import (Array, Element, Integer, Number, Object, String, AnyOf, OneOf, AllOf, Not, Boolean)
    from statham.schema.property import Property
    base = [mk for mk in gen.elements(1)]
    extra = [
        lambda: Element(const=True), lambda: Element(const=1), lambda: Element(const=1.0), lambda: Element(const=[1]), lambda: Element(const=[True]),
        lambda: Element(enum=[0]), lambda: Element(enum=[False]), lambda: Element(default=0), lambda: Element(default=False), lambda: Element(default=0.0),
        lambda: Element(minimum=1), lambda: Element(minimum=1.0),
        lambda: Element(properties={"a": Property(String())}), lambda: Element(properties={"a": Property(String(), required=True)}),
        lambda: Element(properties={"a": Property(String(), source="b")}), lambda: Element(properties={"b": Property(String(), source="a")}),
        lambda: Element(properties={"a": Property(String(default="d"))}), lambda: Element(properties={"a": Property(String(default="d"), required=True)}),
        lambda: Integer(), lambda: Number(), lambda: Element(), lambda: String(), lambda: Boolean(),
        lambda: AnyOf(String(), Integer()), lambda: OneOf(String(), Integer()), lambda: AllOf(String(), Integer()), lambda: AnyOf(Integer(), String()),
        lambda: Array(String()), lambda: Element(items=String()), lambda: Array(String(), uniqueItems=False), lambda: Array(String(), additionalItems=True),
        lambda: Element(additionalProperties=True), lambda: Element(additionalProperties=Element()), lambda: Element(uniqueItems=False),
        lambda: Element(required=[]), lambda: Element(description="d"),
    ]

    def cls(name, **kw):
        def mk():
            from statham.schema.elements.meta import ObjectMeta, ObjectClassDict
            d = ObjectClassDict()
            for k, v in kw.get("props", {"a": lambda: Property(String())}).items():
                d[k] = v()
            return ObjectMeta(name, (Object,), d, **{k: v for k, v in kw.items() if k != "props"})
        return mk
    extra += [cls("A"), cls("A"), cls("B"), cls("A", props={"a": lambda: Property(String(), required=True)}),
              cls("A", props={"a": lambda: Property(String(default="d"))}), cls("A", props={"a": lambda: Property(String(default="d"), required=True)}),
              cls("A", additionalProperties=False), cls("A", description="x"), cls("A", description="y")]

    # models that inherit a class keyword from bases differing only in that keyword (and the flat declarations of the same)
    def derived(**basekw):
        def mk():
            from statham.schema.elements.meta import ObjectMeta, ObjectClassDict
            bd = ObjectClassDict()
            bd["value"] = Property(String())
            Base = ObjectMeta("Base", (Object,), bd, **basekw)
            return ObjectMeta("Model", (Base,), ObjectClassDict())
        return mk
    extra += [derived(), derived(minProperties=1), derived(minProperties=2), derived(required=["value"]), derived(required=["other"]),
              derived(propertyNames=Element(maxLength=5)), derived(maxProperties=1), derived(const={"value": "x"}), derived(enum=[{}]),
              derived(dependencies={"value": ["other"]}), derived(patternProperties={"^v": Element(maxLength=1)}), derived(default={"value": "d"}),
              cls("Model", props={"value": lambda: Property(String())}, minProperties=1), cls("Model", props={"value": lambda: Property(String())})]
    # Not / composition members one step apart
    extra += [lambda: Not(String()), lambda: Not(Integer()), lambda: Not(String(minLength=3)), lambda: Not(String(minLength=1)),
              lambda: Array(Not(String())), lambda: Array(Not(Integer())), lambda: AnyOf(String(), Not(Integer())), lambda: AnyOf(String(), Not(Number()))]
    return base + extra


def c17_equality(run):
    from statham.serializers.json import serialize_json
    makers = c17_variants()
    acc = Acc(run, "C17-equality", f"all pairs of {len(makers)} element variants (one keyword / literal / property attribute / class apart), independently built copies, "
              "also after one of the pair has been used and reconfigured back; == must imply same verdicts and same JSON serialisation")
    w = quiet()
    vals = gen.values_for(None)[::2] + [{"a": "s"}, {"b": "s"}, {}, {"a": 1}, True, 1, 1.0, 0, False, [1], [True]]
    try:
        built = []
        for mk in makers:
            try:
                built.append((mk, mk(), mk()))
            except Exception:
                continue
        for mk, a, a2 in built:
            key = f"refl:{edesc(a)}"
            acc.case(key)
            if not (a == a):
                acc.fail(key, "element is not equal to itself")
            if not (a == a2) or not (a2 == a):
                acc.fail(key, "two independently built copies of the same element are not equal")
        verdicts = {}

        def vd(e):
            k = id(e)
            if k not in verdicts:
                verdicts[k] = [outcome(e, copy.deepcopy(v))[0] for v in vals]
            return verdicts[k]

        def js(e):
            try:
                return serialize_json(e)
            except Exception as ex:
                return f"<{type(ex).__name__}>"
        for (m1, a, _), (m2, b, _) in itertools.combinations(built, 2):
            try:
                eq, qe = (a == b), (b == a)
            except Exception as ex:
                acc.fail(f"{edesc(a)} == {edesc(b)}", f"comparison raised {type(ex).__name__}")
                continue
            key = f"{edesc(a)} == {edesc(b)}"
            acc.case(key, nontrivial=bool(eq))
            if bool(eq) != bool(qe):
                acc.fail(key, f"equality is not symmetric: a==b is {eq}, b==a is {qe}")
            if eq:
                tags = []
                if isinstance(a, type) and isinstance(b, type) and a.__name__ != b.__name__:
                    tags.append("D17-names")
                if jkey(obs(a)) != jkey(obs(b)) and repr(a) == repr(b):
                    pass
                if vd(a) != vd(b):
                    i = next(i for i, (x, y) in enumerate(zip(vd(a), vd(b))) if x != y)
                    acc.fail(key, f"equal elements disagree on {vals[i]!r}: {vd(a)[i]} vs {vd(b)[i]}", extra={"tags": tags + literal_tags(a, b)})
                elif not pyspec.json_eq(js(a), js(b)):
                    acc.fail(key, f"equal elements serialise differently: {jkey(js(a))[:160]} vs {jkey(js(b))[:160]}", extra={"tags": tags + literal_tags(a, b)})
        # an element that was used, then reconfigured to equal a fresh one, must behave like it
        from .props2 import c13_scenarios
        for name, init, steps, final in c13_scenarios():
            e = init()
            if isinstance(e, type):
                continue
            for v in vals[::7]:
                outcome(e, copy.deepcopy(v))
            try:
                for stp in steps:
                    stp(e)
            except Exception:
                continue
            twin = final()
            key = f"reconfigured:{name}"
            acc.case(key)
            if e == twin:
                big = vals + [{"a": "s", "b": 1}, {"b": 1}, "abc", "ab", ["abc"], ["x1"], 0, 3, 10, {"ab": "x"}]
                for v in big:
                    k1 = outcome(e, copy.deepcopy(v))[0]
                    k2 = outcome(twin, copy.deepcopy(v))[0]
                    if k1 != k2:
                        acc.fail(key, f"equal elements (one of them reconfigured after use) disagree on {v!r}: {k1} vs {k2}")
                        break
    finally:
        w.__exit__(None, None, None)
    return acc.result()


def literal_tags(a, b):
    """D17: the two elements differ only by literals that are == in Python but different JSON values (True/1/1.0)."""
    ra, rb = repr(a), repr(b)
    import re
    def tok(m):
        t = m.group(0)
        v = {"True": 1, "False": 0}.get(t)
        if v is None:
            v = float(t)
        return f"<{float(v)}>"
    norm = lambda s: re.sub(r"\b\d+\.\d+\b|\bTrue\b|\bFalse\b|\b\d+\b", tok, s)
    return ["D17-literals"] if ra != rb and norm(ra) == norm(rb) else []


# ------------------------------------------------------------------ C18 repr
def c18_repr(run):
    import statham.schema.elements as E
    from statham.schema.property import Property
    from statham.schema.constants import NotPassed
    ns = {k: getattr(E, k) for k in dir(E) if not k.startswith("_")}
    ns["Property"] = Property
    ns["NotPassed"] = NotPassed
    acc = Acc(run, "C18-repr", "element pool (levels 0-1 + literal variants), fresh and after validating values; properties stand-alone (unbound) and through their element; eval(repr(x)) == x")
    w = quiet()
    try:
        from statham.schema.elements import (Array as _A, Element as _E, String as _S, Integer as _I, Nothing as _N, Not as _Not, AnyOf as _Any, AllOf as _All)
        def shared_prop():
            p_ = Property(_S(), required=True)
            return _E(properties={"alpha": p_, "beta": p_})

        def shared_prop_two_elements():
            p_ = Property(_I())
            _E(properties={"first": p_})
            return _E(properties={"second": p_})
        # one Property object under two names: the copy built from the repr has two objects, so its repr may legitimately spell
        # `source` differently (C18 asks for equality of the rebuilt element, not for textual stability)
        shared_prop.aliased = shared_prop_two_elements.aliased = True
        more = [shared_prop, shared_prop_two_elements, lambda: _A(_S(), additionalItems=False), lambda: _A(_S(), additionalItems=_I()), lambda: _E(additionalItems=False), lambda: _E(additionalItems=_N()),
                lambda: _E(items=_S(), additionalItems=_I()), lambda: _A([], additionalItems=_I()), lambda: _A([]), lambda: _A(_N()), lambda: _Not(_N()),
                lambda: _Any(_S(), _N()), lambda: _All(_N(), _S()), lambda: _E(properties={"a": Property(_N(), required=True)}),
                lambda: _E(properties={"a": Property(_A(_S(), additionalItems=False))}), lambda: _Any(_A(_S(), additionalItems=False), _I())]
        makers = [mk for mk in gen.elements(1 if run.tier == "quick" else 3)] + [mk for mk in c17_variants()[len(gen.elements(1)):] if True] + more
        for mk in makers:
            try:
                e = mk()
            except Exception:
                continue
            if isinstance(e, type):
                continue
            for used in (False, True):
                if used:
                    for v in gen.values_for(None)[::9]:
                        outcome(e, copy.deepcopy(v))
                    try:
                        e(NotPassed())
                    except Exception:
                        pass
                key = f"{'used ' if used else ''}{edesc(mk())}"
                acc.case(key)
                try:
                    r = repr(e)
                    scope = dict(ns)
                    # a model class is written by its name: the classes the element refers to are in scope, as they are in
                    # a generated module
                    from statham.serializers.orderer import get_children
                    from statham.schema.elements.meta import ObjectMeta
                    for ch in get_children(e):
                        if isinstance(ch, ObjectMeta):
                            scope[ch.__name__] = ch
                    back = eval(r, scope)
                except Exception as ex:
                    acc.fail(key, f"repr does not evaluate: {type(ex).__name__}: {ex}")
                    continue
                if not (back == e) or not (e == back):
                    acc.fail(key, f"eval(repr(x)) != x for repr {r[:160]}")
                if repr(back) != r and not getattr(mk, "aliased", False):
                    acc.fail(key, f"repr is not stable: {r[:120]} -> {repr(back)[:120]}")
        from statham.schema.elements import String, Integer, Element
        props = [lambda: Property(String()), lambda: Property(String(), required=True), lambda: Property(Integer(), source="x"),
                 lambda: Property(Element(minimum=1), required=True, source="a-b"), lambda: Property(String(), source=""),
                 lambda: Property(String(default="d"))]
        for mk in props:
            p = mk()
            key = f"property {p!r}"
            acc.case(key)
            try:
                back = eval(repr(p), dict(ns))
                if not (back == p):
                    acc.fail(key, f"eval(repr(p)) != p for an unbound property: {p!r} (source {p.source!r}) -> {back!r} (source {back.source!r})")
            except Exception as ex:
                acc.fail(key, f"{type(ex).__name__}: {ex}")
            holder = Element(properties={"attr": mk()})
            bp = holder.properties["attr"]
            acc.case(key + " [bound, stand-alone]")
            try:
                back = eval(repr(bp), dict(ns))
                if not (back == bp):
                    acc.fail(key + " [bound, stand-alone]", f"a property bound to an element, evaluated on its own: {bp!r} (source {bp.source!r}) -> source {back.source!r}",
                             extra={"tags": ["D21-shape"] if mk().source is None else []})
            except Exception as ex:
                acc.fail(key + " [bound, stand-alone]", f"{type(ex).__name__}: {ex}")
            back = eval(repr(holder), dict(ns))
            acc.case(key + " [bound]")
            if not (back == holder) or back.properties["attr"].source != holder.properties["attr"].source:
                acc.fail(key + " [bound]", f"element holding the property does not round-trip: {holder!r} -> {back!r}")
    finally:
        w.__exit__(None, None, None)
    return acc.result()


# ------------------------------------------------------------------ C19 annotations
def parse_annotation(text):
    """Annotation text -> type term, read the way a type checker reads it."""
    import ast as _ast
    node = _ast.parse(text, mode="eval").body

    def go(n):
        if isinstance(n, _ast.Name):
            return ("name", n.id)
        if isinstance(n, _ast.Constant) and n.value is None:
            return ("name", "None")
        if isinstance(n, _ast.Subscript):
            head = n.value.id
            args = n.slice.elts if isinstance(n.slice, _ast.Tuple) else [n.slice]
            return (head, [go(a) for a in args])
        raise ValueError(_ast.dump(n))
    return go(node)


def has_type(x, t, classes):
    from statham.schema.constants import NotPassed
    kind = t[0]
    if kind == "name":
        n = t[1]
        if n == "Any":
            return not isinstance(x, NotPassed)
        if n == "None":
            return x is None
        if n == "str":
            return isinstance(x, str)
        if n == "int":
            return isinstance(x, int) and not isinstance(x, bool)
        if n == "float":
            return isinstance(x, (int, float)) and not isinstance(x, bool)
        if n == "bool":
            return isinstance(x, bool)
        if n == "List":
            return isinstance(x, list)
        if n in classes:
            return isinstance(x, classes[n])
        raise ValueError(f"unknown type name {n}")
    if kind == "List":
        return isinstance(x, list) and all(has_type(i, t[1][0], classes) for i in x)
    if kind == "Union":
        return any(has_type(x, a, classes) for a in t[1])
    if kind == "Maybe":
        return isinstance(x, NotPassed) or has_type(x, t[1][0], classes)
    raise ValueError(kind)


def c19_models():
    from statham.schema.elements import (AllOf, AnyOf, Array, Boolean, Element, Integer, Not, Nothing, Null, Number, Object, OneOf, String)
    from statham.schema.property import Property

    class Inner(Object):
        n = Property(Number(), required=True)

    class Other(Object):
        s = Property(String())
    subs = {
        "str": (lambda: String(), ["a", ""]), "int": (lambda: Integer(), [1, 0]), "num": (lambda: Number(), [1, 1.5]),
        "bool": (lambda: Boolean(), [True]), "null": (lambda: Null(), [None]), "any": (lambda: Element(), [1, "a", None, [1], {"a": 1}]),
        "arr_str": (lambda: Array(String()), [[], ["a"]]), "arr_num": (lambda: Array(Number()), [[1, 2.5]]),
        "arr_any": (lambda: Array(Element()), [[1, "a"]]), "tuple": (lambda: Array([String(), Integer()]), [["a", 1], ["a", 1, None]]),
        "tuple_closed": (lambda: Array([String(), Integer()], additionalItems=False), [["a", 1], ["a"]]),
        "tuple_add": (lambda: Array([String()], additionalItems=Integer()), [["a", 1, 2]]),
        "empty_tuple_add": (lambda: Array([], additionalItems=Integer()), [[1, 2], []]), "empty_tuple_add_obj": (lambda: Array([], additionalItems=Inner), [[{"n": 1}]]),
        "empty_tuple_closed": (lambda: Array([], additionalItems=False), [[]]), "items_nothing": (lambda: Array(Nothing()), [[]]),
        "single_items_add_ignored": (lambda: Array(String(), additionalItems=Integer()), [["a", "b"]]),
        "obj": (lambda: Inner, [{"n": 1}]), "arr_obj": (lambda: Array(Inner), [[{"n": 1}, {"n": 2.5}]]),
        "anyof": (lambda: AnyOf(String(), Integer()), ["a", 1]), "oneof": (lambda: OneOf(Integer(), String()), ["a", 1]),
        "anyof_obj": (lambda: AnyOf(Inner, Other, String()), [{"n": 1}, {"s": "x"}, "z"]),
        "allof": (lambda: AllOf(String(), Element(minLength=1)), ["a"]), "allof2": (lambda: AllOf(Element(minimum=0), Integer()), [1]),
        "allof_obj_first": (lambda: AllOf(Inner, Element(minProperties=1)), [{"n": 1}]),
        "allof_obj_second": (lambda: AllOf(Element(minProperties=1), Inner), [{"n": 1}]),
        "not": (lambda: Not(String()), [1, None]), "arr_anyof": (lambda: Array(AnyOf(String(), Integer())), [["a", 1]]),
        "str_default": (lambda: String(default="d"), ["a"]), "int_default": (lambda: Integer(default=3), [1]),
        "obj_default": (lambda: type(Inner)("InnerD", (Object,), type(Inner).__prepare__("InnerD", ()), default={}), [{}]),
        "arr_default": (lambda: Array(Integer(), default=[1]), [[2]]),
        "num_default_int": (lambda: Number(default=2), [1]),
    }
    return subs, {"Inner": Inner, "Other": Other}


C19_PROBES = [3.0, 0.0, 2.5, True, None, "s", [3.0], [1, "a"], [2.0, "x"], {"n": 2.0}, [{"n": 1.0}], [], {}, ["one", 2], [1.5], [1], [{"n": 1}, {"n": 2}], [None]]


def c19_annotations(run):
    from statham.schema.elements import Object
    from statham.schema.elements.meta import ObjectMeta, ObjectClassDict
    from statham.schema.property import Property
    from statham.schema.constants import NotPassed
    subs, classes = c19_models()
    acc = Acc(run, "C19-annotations", f"{len(subs)} element shapes placed under a property (required / optional) and under array items of a model, alone and next to one / two patternProperties matching the property's name; accepted values; "
              "the annotation text is parsed and the runtime attribute checked against it (NotPassed only under Maybe, int where float is announced)")
    w = quiet()
    try:
        from statham.schema.elements import Element as _El
        variants = [("", {}), ("+pattern", {"patternProperties": {"^p": _El()}}), ("+2patterns", {"patternProperties": {"^p": _El(), "p$": _El(minProperties=0)}})]
        for name0, (mk, good) in subs.items():
          for vname, mkw in variants:
            name = name0 + vname
            for required in (False, True):
                d = ObjectClassDict()
                try:
                    d["p"] = Property(mk(), required=required)
                except Exception:
                    continue
                M = ObjectMeta("Model", (Object,), d, **{k: (dict(v) if isinstance(v, dict) else v) for k, v in mkw.items()})
                prop = M.properties["p"]
                try:
                    ann = prop.annotation
                    term = parse_annotation(ann)
                except Exception as ex:
                    acc.case(f"{name}/req={required}")
                    acc.fail(f"{name}/req={required}", f"annotation not readable: {type(ex).__name__}: {ex}")
                    continue
                cl = dict(classes)
                el = prop.element
                if isinstance(el, type):
                    cl[el.__name__] = el
                datas = [{"p": g} for g in good] + ([] if required else [{}]) + [{"p": g} for g in C19_PROBES]
                for data in datas:
                    key = f"{name}/req={required}: {ann} <- {jkey(data)}"
                    k, m = outcome(M, copy.deepcopy(data))
                    acc.case(key, nontrivial=(k == "ok"))
                    if k != "ok":
                        continue
                    val = m.p
                    try:
                        ok = has_type(val, term, cl)
                    except Exception as ex:
                        acc.fail(key, f"annotation {ann!r} not checkable: {ex}")
                        continue
                    if not ok:
                        acc.fail(key, f"attribute holds {val!r} ({type(val).__name__}) which is not of the annotated type {ann}",
                                 extra={"tags": ["D20-shape"] if name0 == "allof_obj_second" else []})
                    if term[0] != "Maybe" and isinstance(val, NotPassed):
                        acc.fail(key, f"annotated as always present ({ann}) but the attribute holds NotPassed")
                has_default = not isinstance(getattr(el, "default", NotPassed()), NotPassed)
                if term[0] != "Maybe" and not (required or has_default):
                    acc.fail(f"{name}/req={required}", f"annotated as always present ({ann}) although neither required nor defaulted")
        # a model that extends another model, with the base used first: the extension's own always-present attributes must be present
        from statham.schema.elements import String as _Str, Integer as _Int, Array as _Arr
        for order in ("base first", "extension first"):
            class Account(Object):
                id = Property(_Int(), required=True)

            class Admin(Account):
                email = Property(_Str(), required=True)
                level = Property(_Int(default=1))

            class Team(Object):
                lead = Property(Admin, required=True)
                members = Property(_Arr(Admin))
            if order == "base first":
                outcome(Account, {"id": 1})
            for doc, M in (({"id": 3}, Admin), ({"id": 3, "email": "e"}, Admin), ({"lead": {"id": 1}}, Team), ({"lead": {"id": 1, "email": "e"}, "members": [{"id": 2}]}, Team),
                           ({"lead": {"id": 1, "email": "e"}, "members": [{"id": 2, "email": "f"}]}, Team)):
                key = f"extension of a model ({order}): {M.__name__} <- {jkey(doc)}"
                k, m = outcome(M, copy.deepcopy(doc))
                acc.case(key, nontrivial=(k == "ok"))
                if k != "ok":
                    continue
                admins = [m] if M is Admin else [m.lead] + (list(m.members) if not isinstance(m.members, NotPassed) else [])
                for a_ in admins:
                    for pname, pr in Admin.properties.items():
                        t_ = parse_annotation(pr.annotation)
                        v_ = getattr(a_, pname)
                        if t_[0] != "Maybe" and isinstance(v_, NotPassed):
                            acc.fail(key, f"{M.__name__}: attribute {pname} annotated {pr.annotation} (always present) holds NotPassed")
                        elif not has_type(v_, t_, {"Admin": Admin, "Account": Account}):
                            acc.fail(key, f"{M.__name__}: attribute {pname} holds {v_!r}, not of the annotated type {pr.annotation}")
    finally:
        w.__exit__(None, None, None)
    return acc.result()


# ------------------------------------------------------------------ C02 / C06 / C03: documents through the generator
C02_DOCS = {
    "simple.json": {"type": "object", "title": "Simple", "required": ["a"], "properties": {"a": {"type": "string"}, "b": {"type": "integer", "default": 3}}},
    "nested.json": {"type": "object", "title": "Outer", "properties": {
        "inner": {"type": "object", "title": "Inner", "properties": {"n": {"type": "number"}}, "required": ["n"]},
        "list": {"type": "array", "items": {"type": "object", "title": "Item", "properties": {"k": {"type": "string"}}}},
        "untitled": {"type": "object", "properties": {"z": {"type": "boolean"}}},
        "tuple": {"type": "array", "items": [{"type": "object", "title": "Item", "properties": {"k": {"type": "integer"}}}, {"type": "string"}]}}},
    "refs.json": {"type": "object", "title": "Refs", "properties": {
        "a": {"$ref": "#/definitions/thing"}, "b": {"$ref": "#/definitions/thing"}, "c": {"$ref": "other.json#/definitions/thing"},
        "d": {"type": "array", "items": {"$ref": "#/definitions/other"}}, "e": {"$ref": "#/definitions/other"}},
        "definitions": {"thing": {"type": "object", "title": "Thing", "properties": {"x": {"type": "string"}}},
                        "other": {"type": "object", "title": "Thing", "properties": {"y": {"type": "integer"}}, "additionalProperties": False}}},
    "other.json": {"definitions": {"thing": {"type": "object", "title": "Thing", "properties": {"z": {"type": "number"}}, "required": ["z"]}}},
    "noprops.json": {"type": "object", "title": "Root", "additionalProperties": {"properties": {"v": {"type": "string"}}, "required": ["v"]}},
    "compose.json": {"type": "object", "title": "Comp", "description": "A \"quoted\" description\nwith two lines", "properties": {
        "u": {"anyOf": [{"type": "string"}, {"type": "object", "title": "U", "properties": {"q": {"type": "null"}}}]},
        "m": {"type": ["string", "null"], "default": None}, "n": {"not": {"type": "string"}},
        "a-b": {"type": "string"}, "class": {"type": "integer"}, "o": {"oneOf": [{"minimum": 3}, {"maxLength": 2}], "type": ["integer", "string"]}},
        "patternProperties": {"^x": {"type": "integer"}}, "dependencies": {"u": ["m"]}, "propertyNames": {"maxLength": 5}},
    "array_root.json": {"type": "array", "title": "Arr", "items": {"type": "object", "title": "Elem", "properties": {"v": {"type": "string", "format": "uuid"}}}},
}
C02_DOCS["sameshape.json"] = {"type": "object", "title": "Order", "properties": {
    "billing": {"type": "object", "title": "BillingAddress", "properties": {"street": {"type": "string"}}, "required": ["street"]},
    "shipping": {"type": "object", "title": "ShippingAddress", "properties": {"street": {"type": "string"}}, "required": ["street"]},
    "pets": {"anyOf": [{"type": "object", "title": "Cat", "properties": {"n": {"type": "string"}}}, {"type": "object", "title": "Dog", "properties": {"n": {"type": "string"}}}]},
    "pair": {"type": "array", "items": [{"type": "object", "title": "Left"}, {"type": "object", "title": "Right"}]}}}
C02_DOCS["falsykw.json"] = {"type": "object", "title": "FalsyRoot", "properties": {
    "empty": {"type": "object", "title": "Empty", "maxProperties": 0},
    "settings": {"type": "object", "title": "Settings", "default": {}, "properties": {"v": {"type": "integer", "default": 0}}},
    "zero": {"type": "object", "title": "Zero", "minProperties": 0, "patternProperties": {}, "dependencies": {}},
    "konst": {"type": "object", "title": "Konst", "const": {}}, "never": {"type": "object", "title": "Never", "enum": []},
    "closed": {"type": "object", "title": "Closed", "additionalProperties": False, "required": []}}}
C02_DOCS["descriptions.json"] = {"type": "object", "title": "Descr", "description": "Summary.\n  - first\n  - second", "properties": {
    "a": {"type": "object", "title": "LeadSpace", "description": "  leading space"}, "b": {"type": "object", "title": "Tabbed", "description": "tab\there"},
    "c": {"type": "object", "title": "Trailing", "description": "ends with a newline\n"}, "d": {"type": "object", "title": "Blank", "description": "\nstarts with a newline\n\n"},
    "e": {"type": "object", "title": "Indented", "description": "Usage:\n    indented example line\nend"}, "f": {"type": "object", "title": "Plain", "description": "plain"}}}
C02_ROOTS = ["simple.json", "nested.json", "refs.json", "noprops.json", "compose.json", "array_root.json", "sameshape.json", "falsykw.json", "descriptions.json"]
C02_VALUES = [{}, {"a": "s"}, {"a": "s", "b": 1}, {"a": 1}, {"inner": {"n": 1}}, {"inner": {}}, {"list": [{"k": "s"}, {"k": 1}]}, {"list": [{"k": "s"}]},
              {"untitled": {"z": True}}, {"untitled": {"z": 1}}, {"tuple": [{"k": 1}, "s"]}, {"tuple": [{"k": "s"}]}, {"a": {"x": "s"}}, {"a": {"x": 1}},
              {"c": {"z": 1}}, {"c": {}}, {"d": [{"y": 1}]}, {"d": [{"y": 1, "w": 2}]}, {"k": {"v": "s"}}, {"k": {"v": 1}}, {"k": {}}, {"u": "s", "m": None},
              {"u": {"q": None}, "m": "s"}, {"u": 1}, {"u": "s"}, {"n": 1}, {"n": "s"}, {"a-b": "s"}, {"a-b": 1}, {"class": 1}, {"class": "s"}, {"o": 5}, {"o": "ab"},
              {"o": "abc"}, {"o": 1}, {"x1": 1}, {"x1": "s"}, {"toolongname": 1}, [], [{"v": "123e4567-e89b-12d3-a456-426614174000"}], [{"v": "nope"}], [1], "s", None,
              {"empty": {}}, {"empty": {"x": 1}}, {"settings": {"v": 2}}, {"zero": {}}, {"konst": {}}, {"konst": {"a": 1}}, {"never": {}}, {"closed": {}}, {"closed": {"q": 1}},
              {"billing": {"street": "a"}, "shipping": {"street": "b"}}, {"billing": {}}, {"shipping": {"street": 1}}, {"pets": {"n": "x"}}, {"pets": {"n": 1}}, {"pair": [{}, {}]}]


def materialise(tmp, name):
    from json_ref_dict import materialize, RefDict
    from statham.titles import title_labeller
    return materialize(RefDict.from_uri(os.path.join(tmp, name) + "#/"), context_labeller=title_labeller())


def c02_generated(run):
    from statham.__main__ import main
    from statham.schema.parser import parse
    from statham.schema.elements.meta import ObjectMeta
    from statham.serializers.orderer import get_object_classes
    acc = Acc(run, "C02-generated", ("" if run.tier == "quick" else "every enumerator document under a root property and a nested titled object; ") + f"{len(C02_ROOTS)} documents written to temp files (local and cross-file $ref, repeated titles, untitled nested objects, compositions, renamed properties) "
              "through statham.__main__.main; module executed in an empty namespace; classes compared with parse(); verdicts compared with the Draft-6 oracle")
    tmp = tempfile.mkdtemp(prefix="pyvc_c02_")
    w = quiet()
    try:
        for name, doc in C02_DOCS.items():
            json.dump(doc, open(os.path.join(tmp, name), "w"))
        fm = registered_formats()
        roots = list(C02_ROOTS)
        values_for_root = {}
        if run.tier != "quick":
            # thorough: every document of the schema enumerator placed under a property of a titled root object and of a
            # titled nested object (so that the sub-schema goes through the generator in both positions)
            for i, D in enumerate(schemas.quick()):
                if not isinstance(D, dict):
                    continue
                name = f"gen{i}.json"
                doc = {"type": "object", "title": "GenRoot", "properties": {
                    "p": copy.deepcopy(D), "q": {"type": "object", "title": "GenSub", "properties": {"r": copy.deepcopy(D)}}}}
                try:
                    json.dump(doc, open(os.path.join(tmp, name), "w"))
                except (TypeError, ValueError):
                    continue
                roots.append(name)
                vs = gen.values_quick()[::4]
                values_for_root[name] = [{}] + [{"p": v} for v in vs] + [{"q": {"r": v}} for v in vs[::2]]
        for name in roots:
            acc.case(name)
            try:
                src = main(os.path.join(tmp, name) + "#/")
            except Exception as ex:
                acc.fail(name, f"generation raised {type(ex).__name__}: {ex}")
                continue
            ns = {}
            try:
                exec(compile(src, f"<generated {name}>", "exec"), ns)
            except Exception as ex:
                acc.fail(name, f"generated module does not execute with its own imports: {type(ex).__name__}: {ex}", extra={"source": src[:1500]})
                continue
            parsed = parse(materialise(tmp, name))
            pclasses = get_object_classes(*parsed)
            distinct = []
            for c in pclasses:
                if not any(c is d for d in distinct):
                    distinct.append(c)
            gen_classes = {k: v for k, v in ns.items() if isinstance(v, ObjectMeta) and v.__module__ != "statham.schema.elements.object"}
            names = [c.__name__ for c in distinct]
            if len(set(names)) != len(names):
                acc.fail(name, f"parsed classes do not have distinct names: {names}")
            import re as _re
            want_n = count_object_schemas(deref_doc(tmp, name))
            if len(distinct) != want_n:
                acc.fail(name, f"document has {want_n} distinct object schemas but {len(distinct)} model classes were produced: {names}")
            declared = _re.findall(r"^class (\w+)\(", src, _re.M)
            if sorted(declared) != sorted(set(names)):
                acc.fail(name, f"module declares classes {declared}, distinct object schemas are {sorted(set(names))} (exactly one class each)")
            # one class per distinct object schema: structurally equal same-title classes must have been merged
            for c in distinct:
                G = ns.get(c.__name__)
                if not isinstance(G, ObjectMeta):
                    acc.fail(name, f"class {c.__name__} missing from the generated module")
                    continue
                if not (G == c):
                    acc.fail(name, f"generated class {c.__name__} is not equal to the parsed one")
                if G.__name__ != c.__name__ or jkey(obs(G)) != jkey(obs(c)):
                    acc.fail(name, f"generated class {c.__name__} differs observably from the parsed one (nested class names / defaults / descriptions)")
            root = parsed[0]
            groot = ns.get(getattr(root, "__name__", "")) if isinstance(root, ObjectMeta) else None
            raw = json.load(open(os.path.join(tmp, name)))
            for v in values_for_root.get(name, C02_VALUES):
                key = f"{name} <- {jkey(v)}"
                k1, r1 = outcome(root, copy.deepcopy(v))
                acc.case(key, nontrivial=(k1 == "ok"))
                if groot is not None:
                    k2, r2 = outcome(groot, copy.deepcopy(v))
                    if k1 != k2:
                        acc.fail(key, f"generated root class {k2}, parsed model {k1}")
                    elif k1 == "ok" and jkey(obs(plain(r1))) != jkey(obs(plain(r2))):
                        acc.fail(key, "generated root class builds a different model than the parsed one")
                try:
                    want = draft6.valid(deref_doc(tmp, name), v, formats=fm)
                except Exception:
                    continue
                if (k1 == "ok") != want:
                    acc.fail(key, f"parsed model {k1}, Draft 6 says {'valid' if want else 'invalid'}")
    finally:
        shutil.rmtree(tmp, ignore_errors=True)
        w.__exit__(None, None, None)
    return acc.result()


def count_object_schemas(doc):
    """Distinct object schemas of a dereferenced document (by JSON content)."""
    seen = set()

    def go(n, is_schema):
        if isinstance(n, dict):
            if is_schema and (n.get("type") == "object"):
                seen.add(jkey({k: v for k, v in n.items() if k != "definitions"}))
            for k, v in n.items():
                if k in ("properties", "patternProperties", "definitions", "dependencies"):
                    if isinstance(v, dict):
                        for s in v.values():
                            go(s, True)
                elif k in ("items", "additionalItems", "additionalProperties", "contains", "propertyNames", "not"):
                    for s in (v if isinstance(v, list) else [v]):
                        go(s, True)
                elif k in ("anyOf", "oneOf", "allOf"):
                    for s in v:
                        go(s, True)
    go(doc, True)
    return len(seen)


def deref_doc(tmp, name):
    """Inline every $ref (local and cross-file) for the oracle."""
    def load(n):
        return json.load(open(os.path.join(tmp, n)))

    def go(node, base, root):
        if isinstance(node, dict):
            if "$ref" in node:
                ref = node["$ref"]
                f, _, ptr = ref.partition("#")
                b2 = f or base
                r2 = load(b2)
                return go(draft6.resolve(r2, "#" + ptr), b2, r2)
            return {k: go(v, base, root) for k, v in node.items()}
        if isinstance(node, list):
            return [go(v, base, root) for v in node]
        return node
    root = load(name)
    return go(root, name, root)


# ------------------------------------------------------------------ C03 JSON serialisation preserves meaning
def refs_of(doc):
    out = []

    def go(n):
        if isinstance(n, dict):
            if "$ref" in n and isinstance(n["$ref"], str):
                out.append(n["$ref"])
            for v in n.values():
                go(v)
        elif isinstance(n, list):
            for v in n:
                go(v)
    go(doc)
    return out


def ms_shape_ok(S):
    """Light Draft-6 metaschema shape check of a serialised document."""
    if isinstance(S, bool):
        return None
    if not isinstance(S, dict):
        return f"schema position holds {type(S).__name__}"
    for k, v in S.items():
        if k in ("properties", "patternProperties", "definitions"):
            if not isinstance(v, dict):
                return f"{k} is not an object"
            for s in v.values():
                r = ms_shape_ok(s)
                if r:
                    return r
        elif k in ("items",):
            for s in (v if isinstance(v, list) else [v]):
                r = ms_shape_ok(s)
                if r:
                    return r
        elif k in ("additionalItems", "additionalProperties", "contains", "propertyNames", "not"):
            r = ms_shape_ok(v)
            if r:
                return r
        elif k in ("anyOf", "oneOf", "allOf"):
            if not isinstance(v, list) or not v:
                return f"{k} must be a non-empty array"
            for s in v:
                r = ms_shape_ok(s)
                if r:
                    return r
        elif k == "dependencies":
            for s in v.values():
                if not isinstance(s, list):
                    r = ms_shape_ok(s)
                    if r:
                        return r
        elif k == "required":
            if not isinstance(v, list) or not all(isinstance(x, str) for x in v) or len(set(v)) != len(v):
                return "required must be an array of unique strings"
        elif k == "type":
            if not (isinstance(v, str) or (isinstance(v, list) and v)):
                return "bad type keyword"
    return None


def c03_json(run):
    from statham.serializers.json import serialize_json
    from statham.schema.elements import Object, String, Integer, Array, Element, Nothing
    from statham.schema.property import Property
    acc = Acc(run, "C03-json", "DSL element pool level 2 (+ shared classes, several roots, caller-supplied definitions, mutated-after-first-serialisation) x value pool: "
              "document is JSON, Draft-6 shaped, references resolve, and it accepts exactly what the element accepts (independent oracle)")
    w = quiet()
    fm = registered_formats()
    vals = gen.values_for(None)
    if run.tier == "quick":
        vals = vals[::2] + [{"a": "x"}, {"a": 1}, {"b": "x"}, {"class": "k"}, {"a-b": 1}, [1], ["a"], ["a", 1], [1, "x"], [], {"": "x"}, {"blank": "x"}, {"": 1}, {"": "x", "other": 1}]

    def check(label, elements, kwargs, tags=None):
        key = label
        acc.case(key)
        before = [obs(x) for x in elements]
        try:
            doc = serialize_json(*elements, **kwargs)
        except Exception as ex:
            acc.fail(key, f"serialize_json raised {type(ex).__name__}: {ex}", extra={"tags": (tags or []) + (["D26-shape"] if isinstance(elements[0], Nothing) else [])})
            return
        if [obs(x) for x in elements] != before:
            acc.fail(key, "serialize_json changed the element tree it was given")
            return
        try:
            if jkey(serialize_json(*elements, **kwargs)) != jkey(doc):
                acc.fail(key, "a second serialize_json of the same tree gives a different document")
                return
        except Exception as ex:
            acc.fail(key, f"second serialize_json raised {type(ex).__name__}: {ex}")
            return
        try:
            json.loads(json.dumps(doc))
        except Exception as ex:
            acc.fail(key, f"document is not JSON-serialisable: {ex}")
            return
        if not isinstance(doc, dict):
            acc.fail(key, f"document is {type(doc).__name__}, not an object")
            return
        r = ms_shape_ok(doc)
        if r:
            acc.fail(key, f"not a valid Draft-6 schema: {r}")
            return
        for ref in refs_of(doc):
            try:
                draft6.resolve(doc, ref)
            except Exception:
                acc.fail(key, f"reference {ref} does not resolve inside the document", extra={"tags": tags or []})
                return
        e = elements[0]
        for v in vals:
            k1, _ = outcome(e, copy.deepcopy(v))
            try:
                want = draft6.valid(doc, v, formats=fm)
            except Exception as ex:
                acc.fail(f"{key} <- {jkey(v)}", f"oracle cannot evaluate the document: {type(ex).__name__}: {ex}")
                return
            acc.case(f"{key} <- {jkey(v)}", nontrivial=(k1 == "ok"))
            if (k1 == "ok") != want:
                acc.fail(f"{key} <- {jkey(v)}", f"element {'accepts' if k1 == 'ok' else 'rejects'} but its serialisation {jkey(doc)[:200]} says {'valid' if want else 'invalid'}",
                         extra={"tags": c03_tags(e)})
    try:
        for i, mk, e in element_cases(2 if run.tier == "quick" else 3):
            check(edesc(e), [e], {})
        # extra shapes
        for label, mk in c03_extra().items():
            try:
                els, kw = mk()
            except Exception as ex:
                continue
            check(label, els, kw, tags=["D15-shape"] if label == "primary referenced by another root" else None)
        # serialise, extend a class in place, serialise again
        class Customer(Object):
            name = Property(String())
        class Address(Object):
            street = Property(String(), required=True)
        serialize_json(Customer)
        Customer.properties["address"] = Property(Address)
        check("class extended after a first serialisation", [Customer], {})
    finally:
        w.__exit__(None, None, None)
    return acc.result()


def c03_tags(e):
    """Known-finding shapes: renamed properties (D13), explicit required next to properties / required+default (D14)."""
    from statham.serializers.orderer import get_children
    tags = set()
    try:
        for x in [e] + list(get_children(e)):
            props = getattr(x, "properties", None) or {}
            if any(p.source != n for n, p in props.items()):
                tags.add("D13-shape")
            req = getattr(x, "required", None)
            if props and isinstance(req, list) and req:
                tags.add("D14-shape")
            from statham.schema.constants import NotPassed
            if any(p.required and not isinstance(getattr(p.element, "default", NotPassed()), NotPassed) for p in props.values()):
                tags.add("D14-shape")
    except Exception:
        pass
    return sorted(tags)


def c03_extra():
    from statham.schema.elements import Object, String, Integer, Array, Element, Nothing, AnyOf
    from statham.schema.property import Property

    def shared():
        class Leaf(Object):
            v = Property(String(), required=True)

        class A(Object):
            l = Property(Leaf)
            ls = Property(Array(Leaf))
        return [A], {}

    def two_roots():
        class P(Object):
            x = Property(Integer())

        class Q(Object):
            p = Property(P)
        return [Q, P], {}

    def primary_referenced():
        class Choice(Object):
            c = Property(String())

        class Poll(Object):
            choices = Property(Array(Choice))
        return [Choice, Poll], {}

    def same_shape_classes():
        # two classes with the same keywords and properties but different names: equal under ==, distinct definitions
        class BillingAddress(Object):
            street = Property(String(), required=True)

        class ShippingAddress(Object):
            street = Property(String(), required=True)

        class Order(Object):
            bill = Property(BillingAddress)
            ship = Property(Array(ShippingAddress))
        return [Order], {}

    def derived_same_shape():
        class Base(Object):
            v = Property(Integer())

        class Derived(Base):
            pass
        return [Element(properties={"b": Property(Base), "d": Property(Derived)})], {}

    def two_empty_classes():
        class E1(Object):
            pass

        class E2(Object):
            pass
        return [Array([E1, E2])], {}

    def empty_json_name():
        return [Element(properties={"blank": Property(String(), source="", required=True), "other": Property(Integer())}, additionalProperties=False)], {}

    def empty_json_name_class():
        class EmptyName(Object, additionalProperties=False):
            blank = Property(String(), source="", required=True)
        return [EmptyName], {}

    def inherited_required():
        class Base(Object, required=["id"]):
            id = Property(Integer())

        class Left(Base):
            a = Property(String(), required=True)

        class Right(Base):
            b = Property(String(), required=True)
        return [Array([Left, Base, Right])], {}

    def shared_required_list():
        req = ["k"]
        return [Element(properties={"x": Property(Element(required=req, properties={"p": Property(String(), required=True)})),
                                    "y": Property(Element(required=req, properties={"q": Property(String(), required=True)}))})], {}

    def with_definitions():
        s = String(minLength=1)
        return [Element(properties={"a": Property(String(minLength=1)), "b": Property(Array(String(minLength=1)))})], {"definitions": {"nonempty": s}}

    def definitions_class():
        class D(Object):
            k = Property(Integer(), required=True)
        return [Array(D)], {"definitions": {"extra": Integer(minimum=0)}}
    return {"empty JSON name": empty_json_name, "empty JSON name (class)": empty_json_name_class, "inherited required": inherited_required, "shared required list": shared_required_list, "same-shaped classes": same_shape_classes, "derived same shape": derived_same_shape, "two empty classes": two_empty_classes,
            "shared class": shared, "two roots": two_roots, "primary referenced by another root": primary_referenced,
            "caller definitions": with_definitions, "caller definitions + class": definitions_class,
            "empty tuple items closed": lambda: ([Array([], additionalItems=False)], {}), "items nothing": lambda: ([Array(Nothing())], {}),
            "empty tuple with additional": lambda: ([Element(items=[], additionalItems=Integer())], {}),
            "nothing root": lambda: ([Nothing()], {})}


# ------------------------------------------------------------------ C06 round trips
def c06_roundtrip(run):
    from statham.schema.parser import parse_element, parse
    from statham.serializers.json import serialize_json
    from statham.schema.elements.meta import ObjectMeta
    docs = (schemas.quick() if run.tier == "quick" else schemas.thorough()) + schemas.with_defaults()[::3] + [
        {"type": "object", "title": "Cmd", "description": "A command.\n", "properties": {"a": {"type": "string"}}},
        {"type": "object", "title": "Cmd", "description": "  leading\n    indented block\n", "properties": {"a": {"type": "string"}}},
        {"type": ["string", "null"], "default": None}, {"type": "object", "title": "N", "properties": {"p": {"type": ["integer", "null"], "default": None}}}]
    docs += [{"type": "object", "title": "Order", "properties": {"billing": {"type": "object", "title": "Address", "properties": {"street": {"type": "string"}}},
                                                                 "shipping": {"type": "object", "title": "Address", "properties": {"zip": {"type": "integer"}}},
                                                                 "third": {"type": "object", "title": "Address", "properties": {"geo": {"type": "number"}}}}},
             {"type": "array", "items": [{"type": "object", "title": "Item v 2", "properties": {"a": {}}}, {"type": "object", "title": "Item v 2", "properties": {"b": {}}}]},
             {"properties": {"my-prop": {"type": "string"}}, "required": ["my-prop"]}, {"properties": {"class": {"type": "integer"}, "$id": {}}, "required": ["class", "$id", "other"]},
             {"properties": {"a-b": {"type": "string"}, "ok": {}}, "required": ["ok", "a-b"]},
             {"type": "object", "title": "Ren", "properties": {"my-prop": {"type": "string"}}, "required": ["my-prop"]}]
    # annotations (description / default) on every non-object shape too: a description on a typed, multi-typed, composed or untyped
    # schema must survive -- or be dropped -- the same way on every round
    for shape in [{"type": "string"}, {"type": ["string", "integer"]}, {"type": ["string", "null"], "default": None}, {"anyOf": [{"type": "string"}, {"type": "null"}]},
                  {"allOf": [{"minimum": 1}]}, {"oneOf": [{"type": "integer"}, {"type": "string"}]}, {"not": {"type": "null"}}, {}, {"minimum": 1},
                  {"type": "array", "items": {"type": ["number", "null"], "description": "an item"}}, {"items": [{"type": "string", "description": "first"}]}]:
        docs.append({**copy.deepcopy(shape), "description": "an identifier"})
        docs.append({"type": "object", "title": "Holder", "properties": {"p": {**copy.deepcopy(shape), "description": "a \"quoted\" text"}}})
    acc = Acc(run, "C06-roundtrip", f"{len(docs)} schema documents: serialize(parse(serialize(parse(S)))) == serialize(parse(S)); executed Python source yields classes equal to the parsed ones")
    w = quiet()

    def deref(doc):
        def go(n):
            if isinstance(n, dict):
                if "$ref" in n:
                    return go(copy.deepcopy(draft6.resolve(doc, n["$ref"])))
                return {k: go(v) for k, v in n.items() if k != "definitions"}
            if isinstance(n, list):
                return [go(v) for v in n]
            return n
        return go(doc)
    try:
        for S in docs:
            key = jkey(S)
            try:
                E1 = parse_element(copy.deepcopy(S))
                J1 = serialize_json(E1)
            except Exception as ex:
                acc.case(key, nontrivial=False)
                continue
            acc.case(key)
            try:
                E2 = parse_element(deref(copy.deepcopy(J1)))
                J2 = serialize_json(E2)
            except Exception as ex:
                acc.fail(key, f"serialised document {jkey(J1)[:160]} does not parse/serialise again: {type(ex).__name__}: {ex}", extra={"tags": c06_tags(S, E1)})
                continue
            if not pyspec.same(J1, J2):
                acc.fail(key, f"second round trip differs: {jkey(J1)[:200]} -> {jkey(J2)[:200]}", extra={"tags": c06_tags(S, E1)})
            if not (E2 == E1) and not isinstance(E1, ObjectMeta):
                acc.fail(key + " [element]", "re-parsed element is not equal to the parsed one", extra={"tags": c06_tags(S, E1)})
            if isinstance(E1, ObjectMeta):
                try:
                    src, ns = exec_generated([E1])
                    G = ns[E1.__name__]
                    if not (G == E1) or jkey(obs(G)) != jkey(obs(E1)):
                        acc.fail(key + " [python]", "classes obtained by executing the generated source differ from the parsed ones", extra={"tags": c06_tags(S, E1)})
                    elif not pyspec.same(serialize_json(G), J1):
                        acc.fail(key + " [python]", "generated classes serialise differently")
                except Exception as ex:
                    acc.fail(key + " [python]", f"generated source failed: {type(ex).__name__}: {ex}", extra={"tags": c06_tags(S, E1)})
    finally:
        w.__exit__(None, None, None)
    return acc.result()


def c06_tags(S, E):
    tags = set(c03_tags(E))
    def has_empty_required(n):
        if isinstance(n, dict):
            return n.get("required") == [] or any(has_empty_required(v) for v in n.values())
        if isinstance(n, list):
            return any(has_empty_required(v) for v in n)
        return False
    if has_empty_required(S):
        tags.add("D28-shape")
    return sorted(tags)


def c12_class_names(run):
    """Same-titled but different object schemas at every schema position get distinct class names."""
    from statham.schema.parser import parse
    from statham.serializers.orderer import get_object_classes
    acc = Acc(run, "C12-class-names", "a second, different object schema with the same title placed at each of 21 schema positions: all model classes have distinct names and the generated module declares each")
    w = quiet()
    try:
        other = {"type": "object", "title": "Twin", "properties": {"b": {"type": "integer"}}}
        for pname, sub in c20_positions(other):
            if pname in ("root", "definitions"):
                continue
            doc = {"type": "object", "title": "Root", "properties": {
                "first": {"type": "object", "title": "Twin", "properties": {"a": {"type": "string"}}},
                "holder": sub if pname not in ("object class property", "object class additionalProperties") else {**sub, "title": "Holder"}}}
            key = pname
            acc.case(key)
            try:
                els = parse(copy.deepcopy(doc))
                classes = []
                for c in get_object_classes(*els):
                    if not any(c is d for d in classes):
                        classes.append(c)
                names = [c.__name__ for c in classes]
                if len(set(names)) != len(names):
                    acc.fail(key, f"two different object schemas titled 'Twin' (one at position {pname}) share a class name: {names}")
                    continue
                src, ns = exec_generated(els)
                for c in classes:
                    if not (ns.get(c.__name__) == c):
                        acc.fail(key + " [python]", f"generated module does not declare a class equal to {c.__name__}")
            except Exception as ex:
                acc.fail(key, f"{type(ex).__name__}: {ex}")
    finally:
        w.__exit__(None, None, None)
    return acc.result()


def _cp_chunk(args):
    lo, hi, repo = args
    import sys
    if sys.path[0] != repo:
        sys.path.insert(0, repo)
    import keyword as kw
    from statham.schema.parser import _parse_attribute_name
    from statham.schema.elements.meta import RESERVED_PROPERTIES
    reserved = set(RESERVED_PROPERTIES)
    bad = []
    n = 0
    for cp in range(lo, hi):
        c = chr(cp)
        for name in (c, "a" + c, "_" + c, c + "a", c + "_", "a" + c + "a", "_" + c + "_"):
            n += 1
            try:
                a = _parse_attribute_name(name)
            except Exception as ex:
                bad.append((cp, name, f"{type(ex).__name__}: {ex}"))
                continue
            if not a.isidentifier() or kw.iskeyword(a) or a in reserved:
                bad.append((cp, name, a))
        if len(bad) > 50:
            break
    return n, bad


def c12_codepoints(run):
    """Exhaustive over a finite domain: every code point alone and with each kind of neighbour."""
    import multiprocessing as mp
    hi = 0x110000 if run.tier == "thorough" else 0x10000
    repo = os.environ.get("STATHAM_REPO", "/repo")
    acc = Acc(run, "C12-codepoints", f"EXHAUSTIVE over code points 0..{hi - 1:#x} x 7 neighbour contexts (alone, after/before a letter or '_'): "
              "the attribute name is an identifier, not a keyword, not reserved")
    step = 0x1000
    chunks = [(lo, min(lo + step, hi), repo) for lo in range(0, hi, step)]
    with mp.Pool(min(16, os.cpu_count() or 4)) as pool:
        results = pool.map(_cp_chunk, chunks)
    total = 0
    for n, bad in results:
        total += n
        for cp, name, a in bad[:5]:
            acc.fail(f"U+{cp:04X} in {name!r}", f"maps to {a!r}: not a usable attribute name")
    acc.cases = total
    acc.nontrivial = set(range(min(total, 100000)))
    acc.samples = [f"U+{cp:04X}" for cp in (0x41, 0xB2, 0x663, 0xFB01, 0x1F600)]
    r = acc.result()
    r["exhaustive"] = True
    r["distinct_nontrivial"] = total
    return r
