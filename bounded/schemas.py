"""Small-scope enumeration of Draft-6 schema documents over the supported keywords."""
import copy
import itertools

LEAF = [
    True, False, {},
    {"type": "string"}, {"type": "integer"}, {"type": "number"}, {"type": "boolean"}, {"type": "null"},
    {"type": "array"}, {"type": ["string", "integer"]}, {"type": ["number", "null"]}, {"type": ["integer"]},
    {"minimum": 1}, {"maximum": 1}, {"exclusiveMinimum": 1}, {"exclusiveMaximum": 1}, {"minimum": 1.5},
    {"multipleOf": 2}, {"multipleOf": 0.5}, {"multipleOf": 1.5},
    {"minLength": 1}, {"maxLength": 1}, {"pattern": "^a"}, {"pattern": "b$"},
    {"const": True}, {"const": 1}, {"const": 1.0}, {"const": [True]}, {"const": [1]}, {"const": {"a": True}},
    {"const": None}, {"const": "a"}, {"const": 0}, {"const": False},
    {"enum": [1, "a", None]}, {"enum": [True]}, {"enum": [[1], {"a": False}]}, {"enum": [0, 1.5]},
    {"minItems": 1}, {"maxItems": 1}, {"uniqueItems": True}, {"uniqueItems": False},
    {"minProperties": 1}, {"maxProperties": 1}, {"required": ["a"]}, {"required": ["a", "b"]}, {"required": []},
    {"format": "uuid"}, {"format": "date-time"}, {"format": "unregistered-x"},
    {"type": "integer", "minimum": 0, "maximum": 2}, {"type": "string", "minLength": 1, "maxLength": 2},
    {"type": "number", "exclusiveMinimum": 0}, {"type": "integer", "multipleOf": 3},
    {"properties": {"": {"type": "string"}}}, {"properties": {"": {"type": "string"}, "blank": {"type": "integer"}}},
    {"type": "object", "title": "E", "properties": {"": {"type": "string"}}, "additionalProperties": False},
    # boundary variants of the keywords the enumeration above touches only once, and the object keywords on a model class
    {"maximum": 1.5}, {"exclusiveMaximum": 1.5}, {"minItems": 2}, {"maxItems": 0}, {"maxItems": 2}, {"minProperties": 2},
    {"maxProperties": 0}, {"maxProperties": 2}, {"minLength": 2}, {"maxLength": 0}, {"maxLength": 2}, {"pattern": "a"},
    {"type": "array", "uniqueItems": True, "minItems": 1, "maxItems": 2}, {"type": "object", "title": "Cnt", "minProperties": 1, "maxProperties": 2},
    {"type": "object", "title": "K1", "propertyNames": {"maxLength": 1}}, {"type": "object", "title": "K2", "dependencies": {"a": ["b"]}},
    {"type": "object", "title": "K3", "const": {"a": 1}}, {"type": "object", "title": "K4", "enum": [{"a": 1}, {}]},
    {"type": "object", "title": "K5", "required": ["a"]}, {"type": "object", "title": "K6", "dependencies": {"a": {"required": ["b"]}}},
    {"type": "object", "title": "K7", "patternProperties": {"^a": {"type": "integer"}}, "additionalProperties": {"type": "string"}},
]

DEFAULTS = [None, False, True, 0, 1, "", "a", [], [1], {}, {"a": 1}, 1.5]


def subs():
    return [{"type": "string"}, {"type": "integer"}, {"minimum": 1}, False, True, {}, {"type": "number"},
            {"const": True}, {"type": ["string", "null"]}, {"maxLength": 1}]


def positions(sub, sub2=None):
    sub2 = {"type": "string"} if sub2 is None else sub2
    c = copy.deepcopy
    return [
        {"items": c(sub)}, {"type": "array", "items": c(sub)}, {"items": [c(sub), c(sub2)]},
        {"items": [c(sub)], "additionalItems": False}, {"items": [c(sub2)], "additionalItems": c(sub)},
        {"items": [], "additionalItems": c(sub)},
        {"contains": c(sub)}, {"not": c(sub)},
        {"properties": {"a": c(sub)}}, {"properties": {"a": c(sub)}, "required": ["a"]},
        {"properties": {"a": c(sub), "b": c(sub2)}, "additionalProperties": False},
        {"patternProperties": {"^a": c(sub)}}, {"patternProperties": {"^a": c(sub), "b$": c(sub2)}, "additionalProperties": False},
        {"properties": {"ab": c(sub2)}, "patternProperties": {"^a": c(sub)}},
        {"additionalProperties": c(sub)}, {"properties": {"a": c(sub2)}, "additionalProperties": c(sub)},
        {"propertyNames": c(sub)}, {"dependencies": {"a": c(sub)}}, {"dependencies": {"a": ["b"]}},
        {"anyOf": [c(sub), c(sub2)]}, {"oneOf": [c(sub), c(sub2)]}, {"allOf": [c(sub), c(sub2)]},
        {"oneOf": [c(sub), c(sub)]}, {"anyOf": [c(sub)]}, {"allOf": [c(sub)]},
        {"anyOf": [c(sub), c(sub2)], "minLength": 1}, {"oneOf": [c(sub), c(sub2)], "type": ["string", "integer"]},
        {"allOf": [c(sub)], "anyOf": [c(sub2), {"type": "null"}], "not": {"const": "zz"}},
        {"type": "object", "title": "T", "properties": {"a": c(sub)}},
        {"type": "object", "title": "T", "properties": {"a": c(sub)}, "required": ["a"], "additionalProperties": False},
        {"type": "object", "title": "T", "properties": {"a-b": c(sub), "class": c(sub2)}},
        {"type": "object", "title": "T", "patternProperties": {"^a": c(sub)}, "minProperties": 1},
        {"type": "object", "title": "T", "properties": {"a": {**(c(sub) if isinstance(sub, dict) else {}), "default": "d"}}, "required": ["a"]},
        {"type": "array", "items": {"type": "object", "title": "It", "properties": {"a": c(sub)}}},
        {"properties": {"o": {"type": "object", "title": "In", "properties": {"a": c(sub)}, "required": ["a"]}}},
    ]


def quick():
    out = [copy.deepcopy(s) for s in LEAF]
    for sub in subs()[:6]:
        out.extend(positions(sub))
    return out


def thorough():
    out = quick()
    for sub in subs()[6:]:
        out.extend(positions(sub))
    for a, b in itertools.combinations([s for s in LEAF if isinstance(s, dict) and s][:40], 2):
        if not set(a) & set(b):
            out.append({**copy.deepcopy(a), **copy.deepcopy(b)})
    for sub in quick()[len(LEAF):len(LEAF) + 60]:
        out.extend(positions(sub)[:12])
    return out


def with_defaults():
    """Schemas with a `default` in every shape a default can sit on (C07)."""
    out = []
    for d in DEFAULTS:
        out += [
            {"default": d}, {"type": "string", "default": d}, {"type": ["string", "integer"], "default": d},
            {"type": ["string"], "default": d}, {"anyOf": [{"type": "string"}, {"type": "null"}], "default": d},
            {"allOf": [{"type": "string"}], "default": d}, {"oneOf": [{"minimum": 1}, {"type": "string"}], "minLength": 0, "default": d},
            {"type": "object", "title": "D", "default": d}, {"type": "array", "default": d},
            {"not": {"type": "null"}, "default": d},
            {"type": "object", "title": "P", "properties": {"p": {"type": "string", "default": d}}},
            {"properties": {"p": {"default": d}, "q": {"anyOf": [{"type": "string"}, {"type": "integer"}], "default": d}}},
            {"allOf": [{"type": "string", "default": "inner"}], "default": d},
            {"anyOf": [{"type": "object", "title": "O1"}], "default": d},
        ]
    for inner, outer in [(0, False), (False, 0), (1, True), (1, 1.0), (1.0, 1), ([0], [False]), ({"a": 1}, {"a": True}), ("a", "a"), (0, 0)]:
        out += [{"allOf": [{"type": ["integer", "boolean", "number", "array", "string"], "default": inner}], "default": outer},
                {"anyOf": [{"default": inner}], "default": outer}]
    return out


def values_for_schema(S):
    """Values aimed at the literals and bounds that occur in S, plus the generic pool."""
    from . import gen
    vals = list(gen.values_for(None))
    return vals
