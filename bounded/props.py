"""Bounded stand-in checks, one or more per property.  Every function takes the Run object, reports
failing cases through run.classify(key, payload) and returns a dict describing what it enumerated.
Nothing here is counted as proved; evidence lists it under coverage.bounded."""
import copy
import os
import json
import time
import warnings

from . import gen, schemas
from runtime.monitor import obs
from spec import draft6, pyspec

MAX_REPORT = 12


def jkey(x):
    try:
        s = json.dumps(x, sort_keys=True, default=repr)
    except Exception:
        s = repr(x)
    import re
    return re.sub(r"\d{40,}", lambda m: f"{m.group(0)[:6]}..({len(m.group(0))} digits)", s)


def srepr(x):
    try:
        return repr(x)
    except Exception as ex:
        return f"<repr raised {type(ex).__name__}>"


class Acc:
    def __init__(self, run, name, bound):
        self.run = run
        self.name = name
        self.bound = bound
        self.cases = 0
        self.nontrivial = set()
        self.samples = []
        self.reported = 0
        self.t0 = time.time()

    def case(self, key, nontrivial=True):
        self.cases += 1
        if nontrivial:
            self.nontrivial.add(key)
        if len(self.samples) < 4 and nontrivial:
            self.samples.append(key[:200])

    def fail(self, key, what, repro=None, extra=None):
        if self.reported >= MAX_REPORT:
            return
        payload = {"what": what, "check": self.name, "witness": {"input": key}, "repro": repro, "replayed": True}
        if extra:
            payload.update(extra)
        fid = self.run.classify(f"{self.name}:{key}", payload)
        if fid is None:
            self.reported += 1

    def result(self):
        return {"name": self.name, "label": "bounded", "bound": self.bound, "cases": self.cases,
                "distinct_nontrivial": len(self.nontrivial), "samples": self.samples}


def quiet():
    w = warnings.catch_warnings()
    w.__enter__()
    warnings.simplefilter("ignore")
    return w


def outcome(fn, *a):
    """('ok', result) | ('rejected', exc) | ('error', exc)"""
    from statham.schema.exceptions import ValidationError
    try:
        return ("ok", fn(*a))
    except (ValidationError, TypeError) as e:
        return ("rejected", e)
    except RecursionError as e:
        return ("error", e)
    except Exception as e:
        return ("error", e)


def registered_formats():
    from statham.schema.validation.format import format_checker
    return dict(format_checker._callable_register)


_VERIF_ROOT = os.path.dirname(os.path.dirname(os.path.abspath(__file__)))
REPRO_PIPE = """import os, sys, json, warnings
sys.path.insert(0, os.environ.get('STATHAM_REPO', '/repo')); sys.path.insert(0, os.environ.get('VERIF_ROOT', %r))""" % _VERIF_ROOT + """
warnings.simplefilter('ignore')
from statham.schema.parser import parse_element
from statham.schema.exceptions import ValidationError
from spec import draft6
from statham.schema.validation.format import format_checker
S = json.loads({S!r}); v = json.loads({v!r})
want = draft6.valid(S, v, formats=dict(format_checker._callable_register))
E = parse_element(json.loads({S!r}))
try:
    E(v); got = True
except (ValidationError, TypeError):
    got = False
assert got == want, f'schema {{S}} value {{v!r}}: statham accepts={{got}}, Draft 6 valid={{want}}'
"""


# ------------------------------------------------------------------ C01 / C10 : the pipeline against the oracle
def pipeline(run, pid="C01"):
    from statham.schema.parser import parse_element
    from statham.schema.exceptions import SchemaParseError
    docs = schemas.quick() if run.tier == "quick" else schemas.thorough()
    acc = Acc(run, f"{pid}-pipeline", f"{len(docs)} schema documents (bounded/schemas.py {run.tier}) x value pool of bounded/gen.values_for")
    vals = gen.values_for(None) + ([] if pid == "C01" else gen.EXTREME + [[x] for x in gen.EXTREME[:4]])
    fm = registered_formats()
    w = quiet()
    try:
        for S in docs:
            try:
                E = parse_element(copy.deepcopy(S))
            except SchemaParseError as e:
                acc.case("parse:" + jkey(S))
                if pid == "C10":
                    continue
                acc.fail("parse:" + jkey(S), f"supported schema refused: {type(e).__name__}: {e}")
                continue
            except Exception as e:
                acc.case("parse:" + jkey(S))
                acc.fail("parse:" + jkey(S), f"parse_element raised {type(e).__name__}: {e}")
                continue
            for v in vals:
                key = jkey(S) + " <- " + jkey(v)
                kind, r = outcome(E, copy.deepcopy(v))
                if pid == "C10":
                    acc.case(key)
                    if kind == "error":
                        acc.fail(key, f"{type(r).__name__} escaped from element call: {r}")
                    continue
                try:
                    want = draft6.valid(S, v, formats=fm)
                except OverflowError:
                    continue
                acc.case(key, nontrivial=True)
                if kind == "error":
                    acc.fail(key, f"{type(r).__name__} escaped (neither accept nor reject): {r}")
                elif (kind == "ok") != want:
                    acc.fail(key, f"statham {'accepts' if kind == 'ok' else 'rejects'}, Draft 6 says {'valid' if want else 'invalid'}",
                             repro=REPRO_PIPE.format(S=json.dumps(S), v=json.dumps(v)))
    finally:
        w.__exit__(None, None, None)
    return acc.result()


def c01_pipeline(run):
    return pipeline(run, "C01")


def c10_pipeline(run):
    return pipeline(run, "C10")


def c10_documents(run):
    """Document-level parse() on boolean / odd but metaschema-valid documents; integers beyond CPython's str-conversion limit."""
    from statham.schema.parser import parse, parse_element
    from statham.schema.exceptions import SchemaParseError
    acc = Acc(run, "C10-documents", "parse() on boolean and degenerate documents; deep nesting within the recursion budget; integers with more than 4300 digits")
    w = quiet()
    try:
        deep = {}
        cur = deep
        for _ in range(150):
            cur["items"] = {}
            cur = cur["items"]
        fw = lambda w: "".join(chr(ord(c) + 0xFEE0) if "!" <= c <= "~" else c for c in w)
        odd_names = [{"type": "object", "title": "T", "properties": {n: {"type": "string"}}, "required": [n]}
                     for n in (fw("dict"), "_" + fw("dict"), fw("__init__"), fw("__class__"), fw("class"), fw("self"), fw("properties"), "\ufb01", "x\u00b2", "", " ", "__", "a-b")]
        for doc in [True, False, {}, {"definitions": {"a": True, "b": False}}, {"definitions": {}}, deep,
                    {"type": "object", "title": "T", "definitions": {"x": {"type": "string"}}}] + odd_names:
            key = jkey(doc)[:120]
            acc.case(key)
            try:
                parse(copy.deepcopy(doc))
            except SchemaParseError:
                pass
            except Exception as ex:
                acc.fail(key, f"parse() raised {type(ex).__name__}: {ex}")
        too_deep = {}
        cur = too_deep
        for _ in range(3000):
            cur["items"] = {}
            cur = cur["items"]
        cyc = {"type": "array"}
        cyc["items"] = cyc
        cyc_def = {"type": "string", "definitions": {"d": cyc}}
        for label, doc in (("3000-deep items", too_deep), ("self-referential document", cyc), ("cycle under definitions", cyc_def),
                           ("3000-deep under definitions", {"definitions": {"d": too_deep}})):
            acc.case(label)
            try:
                parse(doc)
            except SchemaParseError:
                pass
            except BaseException as ex:
                acc.fail(label, f"parse() raised {type(ex).__name__} (not in the schema-parse family)")
        big = 10 ** 5000
        for S in [{"maximum": 1}, {"type": "integer", "minimum": 0}, {"const": 1}, {"enum": [1]}, {"type": "string"}, {"multipleOf": 3}, {"type": "number"}, {"type": ["number", "null"]}, {"items": {"type": "number"}},
                  {"uniqueItems": True}, {"type": "array", "uniqueItems": True}, {"properties": {"a": {"uniqueItems": True}}}, {"not": {"uniqueItems": True}}, {"contains": {"uniqueItems": True}},
                  {"enum": [[1], [2]]}, {"const": [[1]]},
                  {"properties": {"a": {"type": "number"}}}, {"anyOf": [{"type": "number"}, {"type": "string"}]}, {"type": "number", "maximum": 1},
                  {"oneOf": [{"type": "integer"}, {"type": "number"}]}, {"oneOf": [{}, {}]}, {"not": {"type": "integer"}}, {"not": {}},
                  {"anyOf": [{"type": "string"}, {"maximum": 1}]}, {"allOf": [{"type": "integer"}, {"maximum": 1}]},
                  {"properties": {"a": {"oneOf": [{"type": "integer"}, {"minimum": 0}]}}}, {"items": {"not": {"minimum": 0}}}]:
            edge = [("[[10**5000],[1]]", [[big], [1]]), ("[10**5000, {}]", [big, {}]), ("[{'a': 10**5000}, {'a': 1}]", [{"a": big}, {"a": 1}]), ("[[10**5000],[10**5000]]", [[big], [big]]),
                    ("2**1024-1", 2 ** 1024 - 1), ("-(2**1024-1)", -(2 ** 1024 - 1)), ("2**1024-2**970", 2 ** 1024 - 2 ** 970), ("2**1024-2**970-1", 2 ** 1024 - 2 ** 970 - 1),
                    ("2**1024", 2 ** 1024), ("2**1023", 2 ** 1023), ("[2**1024-1]", [2 ** 1024 - 1]), ("{'a': 2**1024-1}", {"a": 2 ** 1024 - 1}), ("1.7976931348623157e308", 1.7976931348623157e308)]
            for label, v in [("10**5000", big), ("-10**5000", -big), ("[10**5000]", [big]), ("{'a': 10**5000}", {"a": big})] + edge:
                key = f"{jkey(S)} <- {label}"
                acc.case(key)
                E = parse_element(copy.deepcopy(S))
                kind, r = outcome(E, v)
                if kind == "error":
                    acc.fail(key, f"{type(r).__name__} escaped: {str(r)[:120]}", extra={"tags": ["D30-shape"] if isinstance(r, ValueError) and "4300" in str(r) else []})
        # the same limit on the schema side: keyword values with more than 4300 digits (metaschema-valid numbers)
        for S in [{"maximum": big}, {"minimum": -big}, {"exclusiveMaximum": big}, {"multipleOf": big}, {"const": big}, {"enum": [big, "a"]},
                  {"properties": {"a": {"maximum": big}}}, {"items": {"const": big}}, {"type": "integer", "default": big}, {"maxLength": big},
                  {"minItems": big}, {"anyOf": [{"const": big}, {"type": "string"}]}, {"not": {"const": big}}, {"not": {"maximum": big}},
                  {"oneOf": [{"const": big}, {"maximum": big}]}, {"allOf": [{"not": {"enum": [big]}}]}]:
            for label, v in (("10**5001", big * 10), ("-10**5001", -big * 10), ("'x'", "x"), ("1", 1), ("[1]", [1]), ("{'a': 10**5001}", {"a": big * 10}), ("[10**5001]", [big * 10])):
                key = f"{{{', '.join(repr(k) + ': ...' for k in S)}}} with a 5001-digit literal <- {label}"
                acc.case(key)
                try:
                    E = parse_element(copy.deepcopy(S))
                except Exception as ex:
                    from statham.schema.exceptions import SchemaParseError as _SPE
                    if not isinstance(ex, _SPE):
                        acc.fail(key, f"parse_element raised {type(ex).__name__}: {str(ex)[:100]}")
                    continue
                kind, r = outcome(E, v)
                if kind == "error":
                    acc.fail(key, f"{type(r).__name__} escaped: {str(r)[:120]}")
        # unknown keywords whose names collide with Python-level parameter names, next to every schema shape (unknown keywords
        # are metaschema-valid and must be ignored, not forwarded)
        from statham.schema.exceptions import SchemaParseError as _SPE
        for base in [{}, {"type": "string"}, {"type": "object", "title": "T"}, {"type": "array"}, {"anyOf": [{"type": "string"}, {"type": "null"}]}, {"allOf": [{}]}, {"not": {}},
                     {"type": ["string", "null"]}, {"type": "integer"}, {"type": "number"}, {"type": "null"}, {"type": "boolean"}, {"type": "array", "items": [{}]}]:
            for kw in ("self", "cls", "elements", "args", "kwargs", "name", "value", "property_", "element", "mcs", "bases", "classdict", "source", "additional", "__init__", "__class__"):
                for val in (1, "x", [1], {"a": 1}, None, True):
                    S = {**copy.deepcopy(base), kw: val}
                    key = f"unknown keyword {kw!r}={val!r} next to {jkey(base)}"
                    acc.case(key)
                    try:
                        E = parse_element(S)
                    except _SPE:
                        continue
                    except Exception as ex:
                        acc.fail(key, f"parse_element raised {type(ex).__name__}: {str(ex)[:100]}")
                        continue
                    for v in ("x", 1, None, [1], {"a": 1}):
                        kind, r = outcome(E, v)
                        if kind == "error":
                            acc.fail(key + f" <- {v!r}", f"{type(r).__name__} escaped: {str(r)[:120]}")
        # object schemas that cannot be given a class (no title): the refusal itself must not fail on unprintable keyword values
        for S in [{"type": "object", "maximum": big}, {"type": "object", "properties": {"a": {"const": big}}}, {"type": "object", "default": {"a": big}},
                  {"type": "object", "enum": [big]}, {"type": ["object", "null"], "const": big}, {"items": {"type": "object", "minimum": -big}}]:
            key = f"untitled object schema with a 5001-digit literal: {{{', '.join(repr(k) + ': ...' for k in S)}}}"
            acc.case(key)
            try:
                parse_element(copy.deepcopy(S))
            except _SPE:
                pass
            except Exception as ex:
                acc.fail(key, f"parse_element raised {type(ex).__name__}: {str(ex)[:100]}")
        # property names that are attributes of every Python instance
        for n in ("__dict__", "__weakref__", "__module__", "__doc__", "__class__", "__slots__", "__annotations__", "__init__", "__new__", "__getattribute__", "__setattr__", "__eq__", "__hash__",
                  "__repr__", "__getitem__", "_dict", "__properties__", "properties", "default", "validators", "additionalProperties", "inline", "description", "mro", "__mro__", "__name__", "__qualname__"):
            for sub in ({}, {"type": "string"}, {"type": "object", "title": "In"}):
                for req in (True, False):
                    S = {"type": "object", "title": "T", "properties": {n: sub}, **({"required": [n]} if req else {})}
                    for v in ({n: "x"}, {n: {"a": 1}}, {n: {}}, {n: 1}, {n: None}, {n: [1]}, {}, {"other": 1}):
                        key = f"property named {n!r}: {jkey(sub)} required={req} <- {jkey(v)}"
                        acc.case(key)
                        try:
                            E = parse_element(copy.deepcopy(S))
                        except _SPE:
                            continue
                        except Exception as ex:
                            acc.fail(key, f"parse_element raised {type(ex).__name__}: {str(ex)[:100]}")
                            continue
                        kind, r = outcome(E, copy.deepcopy(v))
                        if kind == "error":
                            acc.fail(key, f"{type(r).__name__} escaped: {str(r)[:120]}")
                        elif kind == "ok":
                            try:
                                repr(r), r == r
                            except Exception as ex:
                                acc.fail(key, f"built instance unusable: {type(ex).__name__}: {str(ex)[:100]}")
        nested = 1
        for _ in range(200):
            nested = [nested]
        for S in [{}, {"items": {}}, {"uniqueItems": True}, {"const": [1]}, {"enum": [[1]]}]:
            key = f"{jkey(S)} <- 200-deep nested list"
            acc.case(key)
            E = parse_element(copy.deepcopy(S))
            kind, r = outcome(E, nested)
            if kind == "error":
                acc.fail(key, f"{type(r).__name__} escaped: {str(r)[:120]}")
    finally:
        w.__exit__(None, None, None)
    return acc.result()


# ------------------------------------------------------------------ element pool x values helpers
def element_cases(level=2):
    for i, mk in enumerate(gen.elements(level)):
        try:
            e = mk()
        except Exception:
            continue
        yield i, mk, e


def edesc(e):
    try:
        return repr(e) if not isinstance(e, type) else f"class {e.__name__}"
    except Exception:
        return "<unreprable>"


def serial(e):
    """All text observables of an element: repr, JSON serialisation, Python serialisation."""
    from statham.serializers.json import serialize_json
    from statham.serializers.python import serialize_python
    out = [edesc(e)]
    for f in (serialize_json, serialize_python):
        try:
            out.append(jkey(f(e)))
        except Exception as ex:
            out.append(f"{type(ex).__name__}")
    return out


# ------------------------------------------------------------------ C08 purity / repeatability histories
def c08_histories(run):
    acc = Acc(run, "C08-histories", "DSL element pool level 2 x value pool; histories of 1..3 calls; snapshots of obs/repr/serialisations/input")
    w = quiet()
    try:
        vals = gen.values_for(None)
        if run.tier == "quick":
            vals = vals[::2]
        for i, mk, e in element_cases(2 if run.tier == "quick" else 3):
            before = (obs(e), serial(e))
            for v in vals:
                v0 = copy.deepcopy(v)
                vin = copy.deepcopy(v)
                k1, r1 = outcome(e, vin)
                key = f"{edesc(e)} <- {jkey(v0)}"
                acc.case(key, nontrivial=(k1 == "ok"))
                if obs(vin) != obs(v0):
                    acc.fail(key, f"input value was modified by validation: {v0!r} -> {vin!r}")
                k2, r2 = outcome(e, copy.deepcopy(v0))
                if k1 != k2 or (k1 == "ok" and obs(r1) != obs(r2)):
                    acc.fail(key, f"second call differs: first {k1} {srepr(r1)[:80]}, second {k2} {srepr(r2)[:80]}")
            after = (obs(e), serial(e))
            if before != after:
                acc.fail(f"{edesc(mk())} after {len(vals)} calls", "element tree observably changed by validation calls",
                         extra={"before": str(before)[:600], "after": str(after)[:600]})
            fresh = mk()
            if not isinstance(e, type) and not (e == fresh):
                acc.fail(f"{edesc(fresh)} != used copy", "element no longer equals a fresh copy after validation")
    finally:
        w.__exit__(None, None, None)
    return acc.result()


# ------------------------------------------------------------------ C07 defaults and descriptions survive
def exec_generated(elements):
    """Execute the generated Python module in a namespace holding nothing; returns the namespace."""
    from statham.serializers.python import serialize_python
    src = serialize_python(*elements)
    ns = {}
    exec(compile(src, "<generated>", "exec"), ns)
    return src, ns


def c07_defaults(run):
    from statham.schema.parser import parse_element, parse
    from statham.schema.constants import NotPassed
    from statham.schema.elements.meta import ObjectMeta
    from statham.serializers.json import serialize_json
    docs = schemas.with_defaults()
    acc = Acc(run, "C07-defaults", f"{len(docs)} schemas: 12 default literals x 14 shapes a default can sit on; parse, JSON and Python serialisation")
    w = quiet()
    try:
        for S in docs:
            key = jkey(S)
            try:
                E = parse_element(copy.deepcopy(S))
            except Exception as e:
                acc.case(key)
                acc.fail(key, f"parse raised {type(e).__name__}: {e}")
                continue
            acc.case(key)
            def chk(el, sch, where):
                if "default" in sch:
                    got = getattr(el, "default", NotPassed())
                    if isinstance(got, NotPassed) or not pyspec.same(got, sch["default"]):
                        acc.fail(key, f"{where}: schema default {sch['default']!r} but parsed element carries {got!r}")
                        return False
                return True
            if "default" in S:
                if chk(E, S, "top level"):
                    try:
                        J = serialize_json(E)
                        if "default" not in J or not pyspec.same(J["default"], S["default"]):
                            acc.fail(key + " [json]", f"JSON serialisation carries default {J.get('default', '<absent>')!r}, schema said {S['default']!r}")
                    except Exception as e:
                        acc.fail(key + " [json]", f"serialize_json raised {type(e).__name__}: {e}")
            for pname, psch in (S.get("properties") or {}).items():
                if isinstance(psch, dict) and "default" in psch:
                    props = getattr(E, "properties", None) or {}
                    pr = [p for p in props.values() if p.source == pname]
                    if not pr:
                        acc.fail(key, f"property {pname} lost")
                    else:
                        chk(pr[0].element, psch, f"property {pname}")
            # an inner default must stay where it was declared (not overwritten by / moved to the outer one)
            for comp in ("allOf", "anyOf", "oneOf"):
                for j, sub in enumerate(S.get(comp, [])):
                    if isinstance(sub, dict) and "default" in sub and "default" in S and not pyspec.same(sub["default"], S["default"]):
                        inner = [x for x in [E] + list(getattr(E, "elements", [])) if getattr(x, "default", None) == sub["default"]]
                        if not inner and not isinstance(E, ObjectMeta):
                            acc.fail(key + " [inner]", f"default {sub['default']!r} declared on {comp}[{j}] is gone after parsing (outer default {S['default']!r})")
            if isinstance(E, ObjectMeta) or any(isinstance(getattr(p, "element", None), ObjectMeta) for p in (getattr(E, "properties", None) or {}).values()):
                try:
                    src, ns = exec_generated([E])
                    for name, obj in ns.items():
                        if isinstance(obj, ObjectMeta) and obj.__name__ == getattr(E, "__name__", None):
                            if "default" in S and not pyspec.same(getattr(obj, "default", NotPassed()), E.default):
                                acc.fail(key + " [python]", f"generated class default {getattr(obj, 'default', None)!r} != parsed {E.default!r}")
                except Exception as e:
                    acc.fail(key + " [python]", f"generated module failed: {type(e).__name__}: {e}")
        # after all of the above has been parsed in this process: schemas that declare no default carry none (no default leaks
        # from one parse into another through shared state)
        for primer in [{"default": 0, "allOf": [{}]}, {"default": False, "oneOf": [True]}, {"default": 1, "anyOf": []}, {"default": None, "allOf": [{}, True]},
                       {"default": "d", "not": {"not": {}}}, {"default": [1], "allOf": [{}], "anyOf": [{}], "oneOf": [{}]}]:
            key = "default next to trivial composition: " + jkey(primer)
            acc.case(key)
            try:
                E = parse_element(copy.deepcopy(primer))
                d_ = getattr(E, "default", NotPassed())
                if isinstance(d_, NotPassed) or not pyspec.same(d_, primer["default"]):
                    inner = [x for x in getattr(E, "elements", []) if not isinstance(getattr(x, "default", NotPassed()), NotPassed)]
                    if not (inner and pyspec.same(inner[0].default, primer["default"])):
                        acc.fail(key, f"declared default {primer['default']!r} not on the parsed element {E!r}")
            except Exception as e:
                if "not" not in primer:
                    acc.fail(key, f"{type(e).__name__}: {e}")
        for clean in [{"anyOf": [{"type": "string"}, {"type": "integer"}]}, {"allOf": [{}]}, {"oneOf": [True]}, {"not": {"type": "null"}}, {"anyOf": [{}]},
                      {"allOf": [{"type": "string"}], "minLength": 1}, {"type": ["string", "null"]}, {"type": "object", "title": "Clean", "properties": {"p": {"oneOf": [{}, {"type": "null"}]}}},
                      {"type": "string"}, {}, {"items": {"anyOf": [True]}}]:
            key = "no default declared: " + jkey(clean)
            acc.case(key)
            try:
                E = parse_element(copy.deepcopy(clean))
                J = serialize_json(E)
            except Exception as e:
                acc.fail(key, f"{type(e).__name__}: {e}")
                continue
            if '"default"' in jkey(J):
                acc.fail(key, f"schema declares no default but its parsed element serialises with one: {jkey(J)[:200]}")
        # the same sub-schema *object* referenced from several places (what dereferencing a document with several $ref to one
        # definition produces): every place must carry the default
        for S0 in docs[::2]:
            if not (isinstance(S0, dict) and "default" in S0):
                continue
            shared = copy.deepcopy(S0)
            doc = {"type": "object", "title": "Sh", "properties": {"a": shared, "b": shared, "c": {"type": "array", "items": shared}}}
            key = "shared sub-schema x3: " + jkey(S0)
            acc.case(key)
            try:
                E = parse_element(doc)
            except Exception as e:
                acc.fail(key, f"parse raised {type(e).__name__}: {e}")
                continue
            props = getattr(E, "properties", None) or {}
            for pname in ("a", "b"):
                pr = [p for p in props.values() if p.source == pname]
                got = getattr(pr[0].element, "default", NotPassed()) if pr else NotPassed()
                if isinstance(got, NotPassed) or not pyspec.same(got, S0["default"]):
                    acc.fail(key, f"property {pname} (the same schema object as its siblings): default {S0['default']!r} expected, element carries {got!r}")
            pc = [p for p in props.values() if p.source == "c"]
            it = getattr(pc[0].element, "items", None) if pc else None
            got = getattr(it, "default", NotPassed())
            if isinstance(got, NotPassed) or not pyspec.same(got, S0["default"]):
                acc.fail(key, f"items of property c (the same schema object again): default {S0['default']!r} expected, element carries {got!r}")
        if run.tier != "quick":
            # thorough: a default (and a description) injected at every sub-schema position of every enumerator document, one
            # at a time; the multiset of defaults/descriptions of the JSON serialisation of the parsed element must be the
            # document's own (definitions dereferenced)
            SUB1 = ("items", "additionalItems", "contains", "not", "additionalProperties", "propertyNames")
            SUBM = ("properties", "patternProperties", "dependencies", "definitions")
            SUBL = ("anyOf", "oneOf", "allOf")

            def positions_of(d, path=()):
                if isinstance(d, dict):
                    yield path
                    for k, v in d.items():
                        if k in SUB1:
                            if isinstance(v, list):
                                for i, x in enumerate(v):
                                    yield from positions_of(x, path + (k, i))
                            else:
                                yield from positions_of(v, path + (k,))
                        elif k in SUBM and isinstance(v, dict):
                            for kk, x in v.items():
                                yield from positions_of(x, path + (k, kk))
                        elif k in SUBL and isinstance(v, list):
                            for i, x in enumerate(v):
                                yield from positions_of(x, path + (k, i))

            def collect(d, root, out):
                if isinstance(d, dict):
                    if "$ref" in d:
                        return collect(draft6.resolve(root, d["$ref"]), root, out)
                    if "default" in d:
                        out.append(("default", jkey(d["default"])))
                    if isinstance(d.get("description"), str) and d.get("type") == "object":
                        out.append(("description", d["description"]))     # C07 speaks of the description of *object* schemas only
                    for k, v in d.items():
                        if k in SUB1:
                            for x in (v if isinstance(v, list) else [v]):
                                collect(x, root, out)
                        elif k in ("properties", "patternProperties", "dependencies") and isinstance(v, dict):
                            for x in v.values():
                                collect(x, root, out)
                        elif k in SUBL and isinstance(v, list):
                            for x in v:
                                collect(x, root, out)
                return out
            lits = schemas.DEFAULTS
            n = 0
            for D in schemas.thorough():
                if not isinstance(D, dict):
                    continue
                for pos in list(positions_of(D))[:12]:
                    n += 1
                    doc = copy.deepcopy(D)
                    node = doc
                    for step in pos:
                        node = node[step]
                    if "default" in node or "description" in node:
                        continue
                    node["default"] = copy.deepcopy(lits[n % len(lits)])
                    node["description"] = f"text {n}"
                    key = f"inject@{'/'.join(map(str, pos)) or '<root>'} in {jkey(D)[:100]}"
                    acc.case(key)
                    try:
                        E = parse_element(copy.deepcopy(doc))
                        J = serialize_json(E)
                    except Exception as e:
                        from statham.schema.exceptions import SchemaParseError, FeatureNotImplementedError
                        if not isinstance(e, (SchemaParseError, FeatureNotImplementedError)):
                            acc.fail(key, f"{type(e).__name__}: {str(e)[:100]}")
                        continue
                    want = sorted(collect(doc, doc, []))
                    got = sorted(collect(J, J, [])) if isinstance(J, dict) else []
                    if want != got:
                        from checker.finding_classes import _has_colliding_names
                        acc.fail(key, f"defaults/descriptions of the document {want} != those of the JSON serialisation of the parsed element {got}",
                                 extra={"tags": ["D10-shape"] if _has_colliding_names(doc) else []})
    finally:
        w.__exit__(None, None, None)
    return acc.result()


DESCRIPTIONS = ["plain", "with 'single' quotes", 'with "double" quotes', 'ends with quote"', "back\\slash", "a\\nb", "line1\nline2",
                "tab\there", "unicode é 日本 ✓", '"""triple"""', "trailing backslash\\", " leading space", "{braces}", "%s percent", "", "ends with backslash quote\\\"", "q\"\"", "cr\rlf"]


def c07_descriptions(run):
    from statham.schema.parser import parse_element, parse
    acc = Acc(run, "C07-descriptions", f"{len(DESCRIPTIONS)} description strings (quotes, backslashes, newlines, non-ASCII) on an object schema")
    w = quiet()
    try:
        for d in DESCRIPTIONS:
            S = {"type": "object", "title": "Doc", "description": d, "properties": {"a": {"type": "string"}}}
            key = jkey(d)
            acc.case(key)
            try:
                E = parse_element(copy.deepcopy(S))
            except Exception as e:
                acc.fail(key, f"parse raised {type(e).__name__}: {e}")
                continue
            if E.description != d:
                acc.fail(key, f"class description {E.description!r} != schema description {d!r}")
                continue
            if d == "":
                continue
            try:
                src, ns = exec_generated([E])
                G = ns["Doc"]
                if G.description != d:
                    acc.fail(key + " [python]", f"generated class description {G.description!r} != {d!r}")
            except Exception as e:
                acc.fail(key + " [python]", f"generated module failed: {type(e).__name__}: {e}")
        # several same-titled, same-shaped object schemas in one document: each keeps its own description
        doc = {"type": "object", "title": "Holder", "description": "the holder", "properties": {
            "first": {"type": "object", "title": "Part", "description": "first description", "properties": {"v": {"type": "string"}}},
            "second": {"type": "object", "title": "Part", "description": "second description", "properties": {"v": {"type": "string"}}},
            "third": {"type": "object", "title": "Part", "properties": {"v": {"type": "string"}}},
            "fourth": {"type": "object", "title": "Part", "description": "first description", "properties": {"v": {"type": "string"}}}}}
        acc.case("same-title descriptions")
        try:
            els = parse(copy.deepcopy(doc))
            root = els[0]
            from statham.schema.constants import NotPassed
            from statham.serializers.json import serialize_json
            for pname, p in root.properties.items():
                want = doc["properties"][p.source].get("description", NotPassed())
                got = p.element.description
                if not pyspec.same(got, want):
                    acc.fail(f"same-title descriptions/{pname}", f"property {pname}: class description {got!r}, schema said {want!r} (moved between same-titled classes)")
            src, ns = exec_generated(els)
            J = serialize_json(*els)
            for pname, p in root.properties.items():
                want = doc["properties"][p.source].get("description")
                cname = p.element.__name__
                if want is not None and (ns[cname].description != want or J["definitions"][cname].get("description") != want):
                    acc.fail(f"same-title descriptions/{pname} [serialised]", f"description of {cname} lost or moved in the Python/JSON serialisation")
        except Exception as e:
            acc.fail("same-title descriptions", f"{type(e).__name__}: {e}")
    finally:
        w.__exit__(None, None, None)
    return acc.result()


# ------------------------------------------------------------------ C09 determinism across hash seeds
C09_DOCS = [
    {"type": "object", "title": "Root", "properties": {
        "a": {"anyOf": [{"type": "object", "title": "T", "properties": {"x": {"type": "string"}}}],
              "oneOf": [{"type": "object", "title": "T", "properties": {"y": {"type": "string"}}}],
              "allOf": [{"type": "object", "title": "T", "properties": {"z": {"type": "string"}}}]}}},
    {"type": "object", "title": "R2", "properties": {
        "p": {"type": "array", "items": {"type": "object", "title": "It", "properties": {"k": {"type": "integer"}}}},
        "q": {"type": ["string", "null"]}, "r": {"type": "object", "title": "It", "properties": {"k": {"type": "string"}}},
        "s": {"not": {"type": "object", "title": "It"}}, "u": {"type": "array", "items": [{"type": "number"}, {"type": "boolean"}]}}},
    {"title": "NoObj", "anyOf": [{"type": "string"}, {"type": "integer"}]},
    {"type": "object", "title": "Deps", "dependencies": {"a": {"type": "object", "title": "D1"}, "b": ["a"]},
     "patternProperties": {"^x": {"type": "object", "title": "D1", "required": ["q"]}},
     "additionalProperties": {"type": "object", "title": "D2"}, "propertyNames": {"maxLength": 3}},
    # several required names that are not declared properties, several pattern / dependency keys, many sibling classes and
    # definitions: every place where an ordering could come from a set or from hashing
    {"type": "object", "title": "Req", "required": ["zeta", "alpha", "mid", "beta", "omega"], "properties": {"mid": {"type": "string"}},
     "patternProperties": {"^z": {"type": "integer"}, "^a": {"type": "string"}, "q$": {}, "^m": {"type": "object", "title": "Pm"}},
     "dependencies": {"zeta": ["alpha"], "alpha": {"type": "object", "title": "Da"}, "mid": ["beta", "omega"]}},
    {"type": "object", "title": "Many", "properties": {n: {"type": "object", "title": n.capitalize(), "properties": {"v": {"type": "string"}}, "required": ["w", "u", "v"]}
                                                        for n in ["echo", "alpha", "delta", "charlie", "bravo"]},
     "definitions": {n: {"type": "object", "title": "Def" + n, "required": ["b", "a"]} for n in ["x", "m", "a"]}},
]


def c09_hashseeds(run):
    import os
    import subprocess
    import tempfile
    import shutil
    seeds = [0, 1, 2, 3] if run.tier == "quick" else list(range(12))
    acc = Acc(run, "C09-hashseeds", f"{len(C09_DOCS)} documents x PYTHONHASHSEED in {seeds}: `python -m statham`, serialize_json of parse()")
    repo = os.environ.get("STATHAM_REPO", "/repo")
    tmp = tempfile.mkdtemp(prefix="pyvc_c09_")
    prog = ("import sys, json; sys.path.insert(0, %r)\n"
            "from statham.__main__ import main\nfrom statham.schema.parser import parse\nfrom statham.serializers.json import serialize_json\n"
            "from json_ref_dict import materialize, RefDict\nfrom statham.titles import title_labeller\n"
            "print(main(sys.argv[1]))\n"
            "els = parse(materialize(RefDict.from_uri(sys.argv[1]), context_labeller=title_labeller()))\n"
            "print(json.dumps(serialize_json(*els)))\nprint([getattr(e, '__name__', None) for e in els])\n" % repo)
    try:
        for i, doc in enumerate(C09_DOCS):
            path = os.path.join(tmp, f"doc{i}.json")
            json.dump(doc, open(path, "w"))
            outs = {}
            for s in seeds:
                env = dict(os.environ, PYTHONHASHSEED=str(s), PYTHONPATH=repo)
                p = subprocess.run(["/venv/bin/python", "-c", prog, path + "#/"], capture_output=True, text=True, env=env, timeout=120)
                outs[s] = (p.returncode, p.stdout, p.stderr[-300:] if p.returncode else "")
                acc.case(f"doc{i}/seed{s}")
            distinct = {v for v in outs.values()}
            if len(distinct) > 1:
                a, b = sorted(outs.items())[0], next(x for x in sorted(outs.items()) if x[1] != sorted(outs.items())[0][1])
                acc.fail(f"doc{i}:{jkey(doc)[:150]}", f"output differs between PYTHONHASHSEED={a[0]} and {b[0]}",
                         extra={"out_a": a[1][1][:800], "out_b": b[1][1][:800]})
        # "depends only on the input document": generating another document first must not change the output
        pair_a = {"type": "object", "title": "Record", "properties": {"party": {"type": "object", "title": "Customer", "properties": {"name": {"type": "string"}}}}}
        pair_b = {"type": "object", "title": "Record", "properties": {"party": {"type": "object", "title": "Supplier", "properties": {"name": {"type": "string"}}}}}
        pa, pb = os.path.join(tmp, "pa.json"), os.path.join(tmp, "pb.json")
        json.dump(pair_a, open(pa, "w"))
        json.dump(pair_b, open(pb, "w"))
        prog2 = ("import sys; sys.path.insert(0, %r)\nfrom statham.__main__ import main\n"
                 "for p in sys.argv[1:-1]:\n    main(p)\nprint(main(sys.argv[-1]))\n" % repo)
        env = dict(os.environ, PYTHONHASHSEED="0", PYTHONPATH=repo)
        fresh = subprocess.run(["/venv/bin/python", "-c", prog2, pb + "#/"], capture_output=True, text=True, env=env, timeout=120)
        after = subprocess.run(["/venv/bin/python", "-c", prog2, pa + "#/", pb + "#/"], capture_output=True, text=True, env=env, timeout=120)
        acc.case("history: A then B vs B alone")
        if (fresh.returncode, fresh.stdout) != (after.returncode, after.stdout):
            acc.fail("history: A then B vs B alone", "the module generated for a document differs when another document was generated earlier in the same process",
                     extra={"fresh": fresh.stdout[:600], "after_other_document": after.stdout[:600] + after.stderr[-300:]})
        for i, doc in enumerate(C09_DOCS[:2]):
            path = os.path.join(tmp, f"doc{i}.json")
            twice = subprocess.run(["/venv/bin/python", "-c", prog2, path + "#/", path + "#/"], capture_output=True, text=True, env=env, timeout=120)
            once = subprocess.run(["/venv/bin/python", "-c", prog2, path + "#/"], capture_output=True, text=True, env=env, timeout=120)
            acc.case(f"history: doc{i} twice")
            if (once.returncode, once.stdout) != (twice.returncode, twice.stdout):
                acc.fail(f"history: doc{i} twice", "generating the same document twice in one process gives a different module the second time")
    finally:
        shutil.rmtree(tmp, ignore_errors=True)
    return acc.result()


# ------------------------------------------------------------------ C05 defaults
def c05_object_pool():
    from statham.schema.elements import (Array, Element, Integer, Number, Object, String, AnyOf, Boolean)
    from statham.schema.property import Property

    def plain():
        class A(Object):
            s = Property(String(default="dflt"))
            n = Property(Integer(default=3))
            f = Property(Number(default=2))
            l = Property(Array(Integer(), default=[1, 2]))
            bad = Property(Integer(default="not-an-int"))
            none = Property(String())
            z = Property(Element(default=0))
            e = Property(Element(default=""))
            fl = Property(Boolean(default=False))
        return A

    def renamed():
        class R(Object):
            class_ = Property(String(default="dflt"), source="class")
            a_b = Property(Integer(default=7), source="a-b")
            req_ = Property(String(default="r"), source="req", required=True)
        return R

    def nested():
        class In(Object, default={"x": "inner"}):
            x = Property(String(default="xd"))

        class Out(Object):
            inner = Property(In)
            arr = Property(Array(In, default=[{"x": "1"}, {}]))
            any_ = Property(AnyOf(String(), Integer(), default=5))
        return Out

    def clsdefault():
        class D(Object, default={"a": "from-class-default"}):
            a = Property(String(default="prop-default"))
            b = Property(Integer(default=1))
        return D

    def untyped():
        return Element(properties={"a": Property(String(default="ud")), "b_c": Property(Integer(default=4), source="b-c"),
                                   "n": Property(Number(default=1))})
    def overlapped():
        # patternProperties whose patterns also match declared (defaulted, renamed) property names
        class P(Object, patternProperties={"^s": Element(), "s$": Element(maxLength=10), "^cl": Element()}):
            s = Property(String(default="dflt"))
            ss = Property(Integer(default=3))
            class_ = Property(String(default="k"), source="class")
            other = Property(String(default="o"))
        return P

    def overlapped_untyped():
        return Element(properties={"s": Property(String(default="ud")), "n": Property(Integer(default="bad"))},
                       patternProperties={"^s": Element(), "^n": Element(minimum=0)})
    return [plain, renamed, nested, clsdefault, untyped, overlapped, overlapped_untyped]


def c05_defaults(run):
    import itertools
    from statham.schema.constants import NotPassed
    from statham.schema.elements.meta import ObjectMeta
    acc = Acc(run, "C05-defaults", "7 object schemas (class/untyped, renamed, nested, valid/invalid defaults, patternProperties overlapping declared names) x all subsets of supplied properties (<= 64 per schema); every pool element called with no value")
    w = quiet()
    try:
        for mk in c05_object_pool():
            E = mk()
            props = dict(E.properties)
            names = list(props)
            subsets = list(itertools.chain.from_iterable(itertools.combinations(names, r) for r in range(len(names) + 1)))[:64]
            for sub in subsets:
                data = {}
                for n in sub:
                    p = props[n]
                    d = getattr(p.element, "default", NotPassed())
                    sample = {"String": "supplied", "Integer": 42, "Number": 4.5, "Array": [9], "Boolean": True, "Element": "sup", "AnyOf": "s"}.get(type(p.element).__name__)
                    if isinstance(p.element, ObjectMeta):
                        sample = {"x": "given"}
                    if p.source == "arr":
                        sample = [{"x": "given"}]
                    data[p.source] = sample
                key = f"{edesc(E)} <- {jkey(data)}"
                kind, model = outcome(E, copy.deepcopy(data))
                acc.case(key)
                if kind != "ok":
                    acc.fail(key, f"construction failed: {srepr(model)[:120]}")
                    continue
                for n, p in props.items():
                    try:
                        got = getattr(model, n)
                    except (AttributeError, KeyError) as ex:
                        acc.fail(key, f"declared property {n} (JSON name {p.source!r}) not readable under its Python name: {type(ex).__name__}")
                        continue
                    d = getattr(p.element, "default", NotPassed())
                    if p.source in data:
                        k2, want = outcome(p.element, copy.deepcopy(data[p.source]))
                        if k2 == "ok" and obs(got) != obs(want):
                            acc.fail(key, f"supplied value for {p.source!r} was replaced: model.{n} = {got!r}, expected {want!r}")
                    elif isinstance(d, NotPassed):
                        if not isinstance(got, NotPassed):
                            acc.fail(key, f"omitted property {p.source!r} without default: model.{n} = {got!r}, expected NotPassed")
                    else:
                        k2, conv = outcome(p.element, copy.deepcopy(d))
                        want = conv if k2 == "ok" else d
                        if obs(got) != obs(want):
                            acc.fail(key, f"omitted property {p.source!r} (Python name {n}): model.{n} = {got!r}, expected its default {want!r}")
        # calling any element with no value (plus model classes whose default is invalid / not a dict / violates a keyword)
        def class_defaults():
            from statham.schema.elements import Object, String, Integer
            from statham.schema.property import Property
            yield lambda: Object.inline("BadType", properties={"a": Property(Integer())}, default={"a": "not an int"})
            yield lambda: Object.inline("MissingRequired", properties={"a": Property(String(), required=True)}, default={})
            yield lambda: Object.inline("NotADict", properties={"a": Property(String())}, default=[1, 2])
            yield lambda: Object.inline("TooFew", minProperties=2, default={"a": 1})
            yield lambda: Object.inline("NoneDefault", default=None)
            yield lambda: Object.inline("Extra", properties={"a": Property(String())}, additionalProperties=False, default={"b": 1})
            yield lambda: Object.inline("Valid", properties={"a": Property(String())}, default={"a": "x"})
            # defaults that omit declared (defaulted / renamed) properties: the default itself must stay what was declared
            yield lambda: Object.inline("OmitsInvalid", properties={"value": Property(String()), "note": Property(String(default="n/a"), source="the-note")}, default={"value": 3})
            yield lambda: Object.inline("Flags", properties={"a": Property(String(default="x")), "b": Property(String(default="y"))}, default={}, maxProperties=1)
            yield lambda: Object.inline("ConstDefault", properties={"a": Property(String(default="x"))}, default={}, const={})
            from statham.schema.elements import Element as _E
            yield lambda: _E(properties={"port": Property(Integer()), "host": Property(String(default="h"))}, default={"port": "eighty"})
            yield lambda: _E(properties={"a": Property(String(default="x")), "b": Property(Integer(default=1))}, default={}, maxProperties=0)
        extra_cases = []
        for mk in class_defaults():
            try:
                extra_cases.append((-1, mk, mk()))
            except Exception:
                continue
        for i, mk, e in list(element_cases(2 if run.tier == "quick" else 3)) + extra_cases:
            d = getattr(e, "default", NotPassed())
            key = f"{edesc(e)}()"
            try:
                got = e(NotPassed()) if not isinstance(e, type) else e()
            except Exception as ex:
                acc.case(key)
                acc.fail(key, f"calling with no value raised {type(ex).__name__}: {ex}")
                continue
            acc.case(key, nontrivial=not isinstance(d, NotPassed))
            if isinstance(d, NotPassed):
                if not isinstance(got, NotPassed):
                    acc.fail(key, f"no default, but calling with no value gave {got!r}")
            else:
                k2, conv = outcome(e, copy.deepcopy(d))
                want = conv if k2 == "ok" else d
                if obs(got) != obs(want):
                    acc.fail(key, f"calling with no value gave {got!r}, expected converted default {want!r}")
                # each call converts afresh: mutating one result must not show in the next
                # each call converts afresh: mutating one result must not show in the next
                snapshot = obs(want)
                try:
                    if isinstance(got, list):
                        got.append("mutated-by-caller")
                    elif isinstance(got, dict):
                        got["mutated-by-caller"] = 1
                    elif hasattr(got, "_dict"):
                        got._dict["mutated-by-caller"] = 1
                except Exception:
                    pass
                got2 = e(NotPassed()) if not isinstance(e, type) else e()
                k3, conv3 = outcome(e, copy.deepcopy(d))
                want2 = conv3 if k3 == "ok" else d
                if obs(got2) != snapshot and k2 == "ok":
                    acc.fail(key, f"second call with no value gave {srepr(got2)[:100]} after the caller mutated the first result (default conversion is shared between calls)")
    finally:
        w.__exit__(None, None, None)
    return acc.result()


# ------------------------------------------------------------------ C16 format checking
def rfc3339_pool():
    out = []
    for date in ["1990-12-31", "2020-02-29", "2021-02-28", "9999-12-31", "1970-01-01", "2000-01-01"]:
        for t in ["00:00:00", "23:59:59", "12:30:45", "23:59:60" if date == "1990-12-31" else "07:08:09"]:
            for frac in ["", ".1", ".123", ".123456", ".123456789012"]:
                for off in ["Z", "z", "+00:00", "-00:00", "+23:59", "-12:00", "+05:30"]:
                    for sep in ["T", "t"]:
                        out.append(f"{date}{sep}{t}{frac}{off}")
    return out


def uuid_pool():
    import itertools
    out = ["00000000-0000-0000-0000-000000000000", "ffffffff-ffff-ffff-ffff-ffffffffffff", "FFFFFFFF-FFFF-FFFF-FFFF-FFFFFFFFFFFF",
           "123e4567-e89b-12d3-a456-426614174000", "01890a5d-ac96-774b-bcce-b302099a8057", "1ec9414c-232a-6b00-b3c8-9e6bdeced846"]
    for v, var in itertools.product("012345678f", "0189abcdef"):
        out.append(f"12345678-1234-{v}234-{var}234-123456789abc")
    return out


def c16_formats(run):
    from statham.schema.elements import String, Element
    from statham.schema.validation.format import format_checker
    from statham.schema.validation import Format
    acc = Acc(run, "C16-formats", "RFC 3339 grammar boundaries (dates x times x fractions x offsets x T/t), canonical UUIDs over version/variant nibbles, "
              "registration histories of length <= 3 on a scratch format name, non-string values")
    saved = dict(format_checker._callable_register)
    w = quiet()
    try:
        dt, uu = String(format="date-time"), String(format="uuid")
        for s in rfc3339_pool():
            acc.case("dt:" + s)
            k, r = outcome(dt, s)
            if k != "ok":
                acc.fail("date-time:" + s, f"RFC 3339 timestamp rejected / error: {srepr(r)[:100]}")
        for s in uuid_pool():
            acc.case("uuid:" + s)
            k, r = outcome(uu, s)
            if k != "ok":
                acc.fail("uuid:" + s, f"canonical UUID rejected / error: {srepr(r)[:100]}")
        for s in ["99999999999999999999", "", "0", "T", "2020-13-01T00:00:00Z", "not a date", "1" * 400, "\x00", "٣٠"]:
            acc.case("junk:" + repr(s))
            for el in (dt, uu):
                k, r = outcome(el, s)
                if k == "error":
                    acc.fail(f"{el.format}:{srepr(s)[:40]}", f"{type(r).__name__} escaped from the built-in checker: {r}")
        # registration histories on a scratch name
        checkers = {"T": lambda v: True, "F": lambda v: False, "A": lambda v: v.startswith("a")}
        import itertools
        # the register is keyed by the exact name: names differing from a registered one only by case, surrounding space or
        # Unicode compatibility form are *unregistered* (accept + one warning), and a checker registered under such a name is used
        for odd in ["UUID", "Uuid", "Date-Time", "DATE-TIME", " uuid", "uuid ", "\uff55uid"]:
            format_checker._callable_register.pop(odd, None)
            elx = Element(format=odd)
            for v in ["not-a-uuid", "nope", ""]:
                key = f"unregistered look-alike {odd!r} value={v!r}"
                acc.case(key)
                with warnings.catch_warnings(record=True) as wl:
                    warnings.simplefilter("always")
                    k, r = outcome(elx, v)
                nwarn = len([x for x in wl if issubclass(x.category, RuntimeWarning)])
                if k != "ok" or nwarn != 1:
                    acc.fail(key, f"verdict {k} with {nwarn} warning(s); an unregistered format name never constrains (accept, one warning)")
            format_checker.register(odd)(checkers["F"])
            for v in ["abc", ""]:
                key = f"registered under {odd!r} (always-false checker) value={v!r}"
                acc.case(key)
                k, r = outcome(elx, v)
                if k == "ok":
                    acc.fail(key, "accepted although the checker registered under exactly this name returns False")
            format_checker._callable_register.pop(odd, None)
        for name in ("x-verif-scratch", "X-Verif-Scratch"):
          el = Element(format=name)
          for hist in itertools.chain.from_iterable(itertools.product(checkers, repeat=n) for n in range(0, 4)):
              format_checker._callable_register.pop(name, None)
              for step in hist:
                  format_checker.register(name)(checkers[step])
              for v in ["abc", "xyz", "", 5, None, True, 1.5, ["a"], {"a": 1}]:
                  key = f"hist={''.join(hist) or '-'} value={v!r}"
                  acc.case(key)
                  with warnings.catch_warnings(record=True) as wl:
                      warnings.simplefilter("always")
                      k, r = outcome(el, copy.deepcopy(v))
                  nwarn = len([x for x in wl if issubclass(x.category, RuntimeWarning)])
                  if isinstance(v, str):
                      want_ok = checkers[hist[-1]](v) if hist else True
                      want_warn = 0 if hist else 1
                  else:
                      want_ok, want_warn = True, 0
                  if (k == "ok") != want_ok:
                      acc.fail(key, f"verdict {k}, expected {'accept' if want_ok else 'reject'} (last registered checker decides; non-strings never rejected)")
                  if nwarn != want_warn and isinstance(v, str):
                      acc.fail(key, f"{nwarn} warning(s), expected {want_warn}")
                  if not isinstance(v, str) and nwarn:
                      acc.fail(key, f"non-string value consulted the register ({nwarn} warnings)")
    finally:
        format_checker._callable_register.clear()
        format_checker._callable_register.update(saved)
        w.__exit__(None, None, None)
    return acc.result()
