"""Bounded stand-in checks, one or more per property.  Every function takes the Run object, reports
failing cases through run.classify(key, payload) and returns a dict describing what it enumerated.
Nothing here is counted as proved; evidence lists it under coverage.bounded."""
import copy
import json
import time
import warnings

from . import gen, schemas
from runtime.monitor import obs
from spec import draft6, pyspec

MAX_REPORT = 12


def jkey(x):
    try:
        s = json.dumps(x, sort_keys=True, default=repr)
    except Exception:
        s = repr(x)
    import re
    return re.sub(r"\d{40,}", lambda m: f"{m.group(0)[:6]}..({len(m.group(0))} digits)", s)


class Acc:
    def __init__(self, run, name, bound):
        self.run = run
        self.name = name
        self.bound = bound
        self.cases = 0
        self.nontrivial = set()
        self.samples = []
        self.reported = 0
        self.t0 = time.time()

    def case(self, key, nontrivial=True):
        self.cases += 1
        if nontrivial:
            self.nontrivial.add(key)
        if len(self.samples) < 4 and nontrivial:
            self.samples.append(key[:200])

    def fail(self, key, what, repro=None, extra=None):
        if self.reported >= MAX_REPORT:
            return
        payload = {"what": what, "check": self.name, "witness": {"input": key}, "repro": repro, "replayed": True}
        if extra:
            payload.update(extra)
        fid = self.run.classify(f"{self.name}:{key}", payload)
        if fid is None:
            self.reported += 1

    def result(self):
        return {"name": self.name, "label": "bounded", "bound": self.bound, "cases": self.cases,
                "distinct_nontrivial": len(self.nontrivial), "samples": self.samples}


def quiet():
    w = warnings.catch_warnings()
    w.__enter__()
    warnings.simplefilter("ignore")
    return w


def outcome(fn, *a):
    """('ok', result) | ('rejected', exc) | ('error', exc)"""
    from statham.schema.exceptions import ValidationError
    try:
        return ("ok", fn(*a))
    except (ValidationError, TypeError) as e:
        return ("rejected", e)
    except RecursionError as e:
        return ("error", e)
    except Exception as e:
        return ("error", e)


def registered_formats():
    from statham.schema.validation.format import format_checker
    return dict(format_checker._callable_register)


REPRO_PIPE = """import os, sys, json, warnings
sys.path.insert(0, os.environ.get('STATHAM_REPO', '/repo')); sys.path.insert(0, '/verif')
warnings.simplefilter('ignore')
from statham.schema.parser import parse_element
from statham.schema.exceptions import ValidationError
from spec import draft6
from statham.schema.validation.format import format_checker
S = json.loads({S!r}); v = json.loads({v!r})
want = draft6.valid(S, v, formats=dict(format_checker._callable_register))
E = parse_element(json.loads({S!r}))
try:
    E(v); got = True
except (ValidationError, TypeError):
    got = False
assert got == want, f'schema {{S}} value {{v!r}}: statham accepts={{got}}, Draft 6 valid={{want}}'
"""


# ------------------------------------------------------------------ C01 / C10 : the pipeline against the oracle
def pipeline(run, pid="C01"):
    from statham.schema.parser import parse_element
    from statham.schema.exceptions import SchemaParseError
    docs = schemas.quick() if run.tier == "quick" else schemas.thorough()
    acc = Acc(run, f"{pid}-pipeline", f"{len(docs)} schema documents (bounded/schemas.py {run.tier}) x value pool of bounded/gen.values_for")
    vals = gen.values_for(None) + ([] if pid == "C01" else gen.EXTREME + [[x] for x in gen.EXTREME[:4]])
    fm = registered_formats()
    w = quiet()
    try:
        for S in docs:
            try:
                E = parse_element(copy.deepcopy(S))
            except SchemaParseError as e:
                acc.case("parse:" + jkey(S))
                if pid == "C10":
                    continue
                acc.fail("parse:" + jkey(S), f"supported schema refused: {type(e).__name__}: {e}")
                continue
            except Exception as e:
                acc.case("parse:" + jkey(S))
                acc.fail("parse:" + jkey(S), f"parse_element raised {type(e).__name__}: {e}")
                continue
            for v in vals:
                key = jkey(S) + " <- " + jkey(v)
                kind, r = outcome(E, copy.deepcopy(v))
                if pid == "C10":
                    acc.case(key)
                    if kind == "error":
                        acc.fail(key, f"{type(r).__name__} escaped from element call: {r}")
                    continue
                try:
                    want = draft6.valid(S, v, formats=fm)
                except OverflowError:
                    continue
                acc.case(key, nontrivial=True)
                if kind == "error":
                    acc.fail(key, f"{type(r).__name__} escaped (neither accept nor reject): {r}")
                elif (kind == "ok") != want:
                    acc.fail(key, f"statham {'accepts' if kind == 'ok' else 'rejects'}, Draft 6 says {'valid' if want else 'invalid'}",
                             repro=REPRO_PIPE.format(S=json.dumps(S), v=json.dumps(v)))
    finally:
        w.__exit__(None, None, None)
    return acc.result()


def c01_pipeline(run):
    return pipeline(run, "C01")


def c10_pipeline(run):
    return pipeline(run, "C10")


# ------------------------------------------------------------------ element pool x values helpers
def element_cases(level=2):
    for i, mk in enumerate(gen.elements(level)):
        try:
            e = mk()
        except Exception:
            continue
        yield i, mk, e


def edesc(e):
    try:
        return repr(e) if not isinstance(e, type) else f"class {e.__name__}"
    except Exception:
        return "<unreprable>"


def serial(e):
    """All text observables of an element: repr, JSON serialisation, Python serialisation."""
    from statham.serializers.json import serialize_json
    from statham.serializers.python import serialize_python
    out = [edesc(e)]
    for f in (serialize_json, serialize_python):
        try:
            out.append(jkey(f(e)))
        except Exception as ex:
            out.append(f"{type(ex).__name__}")
    return out


# ------------------------------------------------------------------ C08 purity / repeatability histories
def c08_histories(run):
    acc = Acc(run, "C08-histories", "DSL element pool level 2 x value pool; histories of 1..3 calls; snapshots of obs/repr/serialisations/input")
    w = quiet()
    try:
        vals = gen.values_for(None)
        if run.tier == "quick":
            vals = vals[::2]
        for i, mk, e in element_cases(2):
            before = (obs(e), serial(e))
            for v in vals:
                v0 = copy.deepcopy(v)
                vin = copy.deepcopy(v)
                k1, r1 = outcome(e, vin)
                key = f"{edesc(e)} <- {jkey(v0)}"
                acc.case(key, nontrivial=(k1 == "ok"))
                if obs(vin) != obs(v0):
                    acc.fail(key, f"input value was modified by validation: {v0!r} -> {vin!r}")
                k2, r2 = outcome(e, copy.deepcopy(v0))
                if k1 != k2 or (k1 == "ok" and obs(r1) != obs(r2)):
                    acc.fail(key, f"second call differs: first {k1} {r1!r:.80}, second {k2} {r2!r:.80}")
            after = (obs(e), serial(e))
            if before != after:
                acc.fail(f"{edesc(mk())} after {len(vals)} calls", "element tree observably changed by validation calls",
                         extra={"before": str(before)[:600], "after": str(after)[:600]})
            fresh = mk()
            if not isinstance(e, type) and not (e == fresh):
                acc.fail(f"{edesc(fresh)} != used copy", "element no longer equals a fresh copy after validation")
    finally:
        w.__exit__(None, None, None)
    return acc.result()
