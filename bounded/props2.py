"""More bounded stand-ins: C04 C13 C14 C15 C17 C18."""
import copy
import itertools
import threading

from . import gen
from .props import srepr, Acc, quiet, outcome, jkey, edesc, element_cases, serial
from runtime.monitor import obs
from spec import pyspec


# ------------------------------------------------------------------ C04 completeness of the returned model
def expected_model(e, v):
    """What a successful e(v) must return, as a plain structure: ('num', x) | ('same', x) | ('list', [...]) |
    ('obj', {access-key: (how, expected)}) .  Compositions: the first accepting branch builds the result."""
    from statham.schema.elements import Number, Array, Element, Not
    from statham.schema.elements.composition import CompositionElement
    from statham.schema.elements.meta import ObjectMeta
    from statham.schema.constants import NotPassed
    if isinstance(e, CompositionElement):
        for b in e.elements:
            if pyspec.sem(b, copy.deepcopy(v)):
                return expected_model(b, v)
        return ("any",)
    if isinstance(e, Not):
        return ("same", v)
    if type(e) is Number and isinstance(v, int) and not isinstance(v, bool):
        return ("float", float(v))
    if isinstance(v, list):
        items = getattr(e, "items", NotPassed())
        addl = getattr(e, "additionalItems", True)
        out = []
        for i, x in enumerate(v):
            if isinstance(items, list):
                sub = items[i] if i < len(items) else addl
            else:
                sub = items
            if isinstance(sub, (NotPassed, bool)):
                out.append(untyped(x))
            else:
                out.append(expected_model(sub, x))
        return ("list", out)
    if isinstance(v, dict):
        props = getattr(e, "properties", None) or {}
        by_source = {p.source: (n, p) for n, p in props.items()}
        members = {}
        for k, x in v.items():
            if k in by_source:
                n, p = by_source[k]
                pats = [pe for pat, pe in (getattr(e, "patternProperties", None) or {}).items() if __import__("re").search(pat, k)]
                members[("name", n, k)] = expected_model(p.element, x) if not pats else ("anyshape", x)
            else:
                members[("key", k, k)] = ("anyshape", x)
        return ("obj", isinstance(e, ObjectMeta), members, {n for n in props})
    return ("same", v)


def untyped(x):
    if isinstance(x, list):
        return ("list", [untyped(i) for i in x])
    if isinstance(x, dict):
        return ("obj", False, {("key", k, k): ("anyshape", w) for k, w in x.items()}, set())
    return ("same", x)


def is_model(r):
    from statham.schema.elements.meta import ObjectMeta
    return isinstance(type(r), ObjectMeta)


def renamed_names(e, depth=0, seen=None):
    """Python names of properties whose JSON name differs, anywhere in the element tree."""
    from statham.serializers.orderer import get_children
    out = set()
    try:
        for x in [e] + list(get_children(e)):
            for n, p in (getattr(x, "properties", None) or {}).items():
                if p.source != n:
                    out.add(n)
    except Exception:
        pass
    return out


def keys_in(v):
    if isinstance(v, dict):
        return set(v) | {k for w in v.values() for k in keys_in(w)}
    if isinstance(v, list):
        return {k for w in v for k in keys_in(w)}
    return set()


def same_scalar(r, v):
    return type(r) is type(v) and r == v


def plain(r):
    """Model -> plain JSON-like structure (instances by their _dict)."""
    from statham.schema.constants import NotPassed
    from statham.schema.elements.meta import ObjectMeta
    if isinstance(type(r), ObjectMeta):
        return {k: plain(w) for k, w in r._dict.items() if not isinstance(w, NotPassed)}
    if isinstance(r, dict):
        return {k: plain(w) for k, w in r.items() if not isinstance(w, NotPassed)}
    if isinstance(r, list):
        return [plain(w) for w in r]
    return r


def conforms(r, exp, v, path="$"):
    """Returns None or a description of the first discrepancy."""
    from statham.schema.constants import NotPassed
    kind = exp[0]
    if kind == "any":
        return None
    if kind == "float":
        if not (type(r) is float and r == exp[1]):
            return f"{path}: int under a number schema should come back as the equal float, got {r!r}"
        return None
    if kind == "same":
        if isinstance(exp[1], (list, dict)):
            return shape_eq(r, exp[1], path)
        if not same_scalar(r, exp[1]):
            return f"{path}: scalar {exp[1]!r} came back as {r!r}"
        return None
    if kind == "anyshape":
        return shape_eq(r, exp[1], path)
    if kind == "list":
        if not isinstance(r, list) or len(r) != len(exp[1]):
            return f"{path}: array of length {len(exp[1])} came back as {srepr(r)[:80]}"
        for i, (ri, ei) in enumerate(zip(r, exp[1])):
            d = conforms(ri, ei, None, f"{path}[{i}]")
            if d:
                return d
        return None
    if kind == "obj":
        _, is_cls, members, declared = exp
        seen_keys = set()
        for (how, name, jsonkey), sub in members.items():
            try:
                if how == "name":
                    got = getattr(r, name) if is_cls or hasattr(r, "__getattr__") else r[name]
                    seen_keys.add(name)
                else:
                    got = r[jsonkey]
                    seen_keys.add(jsonkey)
            except (KeyError, AttributeError, TypeError) as ex:
                return f"{path}: member {jsonkey!r} of the input is not readable from the model ({type(ex).__name__})"
            if isinstance(got, NotPassed):
                return f"{path}: member {jsonkey!r} was supplied but the model holds NotPassed"
            d = conforms(got, sub, None, f"{path}.{jsonkey}")
            if d:
                return d
        allkeys = set(r._dict) if is_model(r) else set(r.keys()) if isinstance(r, dict) else set()
        extra = allkeys - seen_keys - set(declared)
        if extra:
            return f"{path}: model has members that were not in the input and are not declared properties: {sorted(extra)}"
        if len(allkeys) < len(seen_keys):
            return f"{path}: members collapsed: input keys {sorted(k for _, _, k in members)} -> model keys {sorted(allkeys)}"
        return None
    return None


def shape_eq(r, v, path):
    """r must reproduce v exactly (untyped region): same scalars, same lengths, same keys."""
    from statham.schema.constants import NotPassed
    if isinstance(v, list):
        if not isinstance(r, list) or len(r) != len(v):
            return f"{path}: array {srepr(v)[:60]} came back as {srepr(r)[:60]}"
        for i, (a, b) in enumerate(zip(r, v)):
            d = shape_eq(a, b, f"{path}[{i}]")
            if d:
                return d
        return None
    if isinstance(v, dict):
        keys = set(r._dict) if is_model(r) else set(r.keys()) if isinstance(r, dict) else None
        if keys is None:
            return f"{path}: object {srepr(v)[:60]} came back as {srepr(r)[:60]}"
        if not set(v) <= keys:
            return f"{path}: members {sorted(set(v) - keys)} dropped"
        for k in v:
            try:
                got = r[k]
            except Exception as ex:
                return f"{path}.{k}: not readable by item access ({type(ex).__name__})"
            d = shape_eq(got, v[k], f"{path}.{k}")
            if d:
                return d
        return None
    if isinstance(r, float) and isinstance(v, int) and not isinstance(v, bool) and r == v:
        return None   # an all-of / pattern composition may legitimately route through a Number branch
    if not same_scalar(r, v):
        return f"{path}: scalar {v!r} came back as {r!r}"
    return None


def c04_covers(run):
    acc = Acc(run, "C04-covers", "DSL element pool level 2 (+inheritance, used-parent-first) x value pool; every accepted value compared member by member with the returned model")
    w = quiet()
    try:
        vals = gen.values_for(None) + C04_VALUES
        pool = list(element_cases(2 if run.tier == "quick" else 3)) + list(c04_extra())
        for i, mk, e in pool:
            for v in vals:
                kind, r = outcome(e, copy.deepcopy(v))
                key = f"{edesc(e)} <- {jkey(v)}"
                acc.case(key, nontrivial=(kind == "ok"))
                if kind != "ok":
                    continue
                try:
                    exp = expected_model(e, v)
                    d = conforms(r, exp, v)
                except Exception as ex:
                    continue
                if d:
                    tags = ["D9-shape"] if renamed_names(e) & keys_in(v) else []
                    acc.fail(key, d, extra={"tags": tags})
    finally:
        w.__exit__(None, None, None)
    return acc.result()


C04_VALUES = [{"class": "k", "a-b": 1}, {"class": "k"}, {"a-b": 2}, {"id": 1, "price": 2}, {"id": 1, "price": 2.5, "class": "k"}, {"price": 3}, {"price": 3, "other": {"z": 1}},
              [{"x": 1}, {"y": 2}, 3], [{"x": 1}], [{"x": 1, "label": "l"}, "s"], [1, "a"], [1, 2, "a"], [1], [1, 2], [1, 2, 3], [1.5, 2, "x"],
              {"n": 1}, {"inner": {"n": 1}, "many": [{"n": 2}]}, {"o": {"a": "s", "b": 4}}]


def c04_extra():
    """Derived models whose base has been used first; arrays of numbers/models under compositions."""
    from statham.schema.elements import (AnyOf, Array, Element, Integer, Number, Object, OneOf, String, Not)
    from statham.schema.property import Property

    def derived_after_base():
        class Base(Object):
            id_ = Property(Integer(), source="id")

        class Derived(Base):
            price = Property(Number(), required=True)
            class_ = Property(String(default="k"), source="class")
        Base({"id": 1})
        return Derived

    def point_or_any():
        class Point(Object):
            x = Property(Number())
            label = Property(String(default="origin"))
        return AnyOf(Array(Point), Array(Element()))

    def nums_or_any():
        return AnyOf(Array(Number(), maxItems=1), Array(Element()))

    def not_nums():
        return Not(Array(Number(), maxItems=1))
    def renamed_under_pattern():
        # a renamed property whose JSON name also matches a patternProperties regex
        class RP(Object, patternProperties={"^cl": String(), "^a-": Element()}):
            class_ = Property(String(), source="class")
            a_b = Property(Number(), source="a-b")
        return RP

    def renamed_under_pattern_untyped():
        return Element(properties={"class_": Property(String(), source="class"), "a_b": Property(Number(), source="a-b")}, patternProperties={"^cl": String(), "b$": Element()})

    def empty_tuple_models():
        class Tag(Object):
            weight = Property(Number())
            class_ = Property(String(default="k"), source="class")
        return Array([], additionalItems=Tag)
    out = []
    for j, mk in enumerate([derived_after_base, point_or_any, nums_or_any, not_nums,
                            lambda: OneOf(Array(Number(), minItems=3), Array(Element(), maxItems=2)),
                            lambda: Array([], additionalItems=Number()), lambda: Element(items=[], additionalItems=Number()), empty_tuple_models,
                            lambda: Element(items=[], additionalItems=Array(Number())), renamed_under_pattern, renamed_under_pattern_untyped]):
        out.append((1000 + j, mk, mk()))
    return out


# ------------------------------------------------------------------ C13 reconfiguration
def c13_scenarios():
    """(name, build initial, [steps as callables on the element], build fresh final) """
    from statham.schema.elements import Array, Element, Integer, Object, String, Nothing
    from statham.schema.property import Property
    S = []

    def s(name, init, steps, final):
        S.append((name, init, steps, final))
    s("String.maxLength", lambda: String(), [lambda e: setattr(e, "maxLength", 2)], lambda: String(maxLength=2))
    s("Integer.minimum loosened", lambda: Integer(minimum=10), [lambda e: setattr(e, "minimum", 0)], lambda: Integer(minimum=0))
    s("Element.const", lambda: Element(), [lambda e: setattr(e, "const", 1)], lambda: Element(const=1))
    s("Element.required reassigned", lambda: Element(required=["a"]), [lambda e: setattr(e, "required", ["b"])], lambda: Element(required=["b"]))
    s("Element.required appended", lambda: Element(required=["a"]), [lambda e: e.required.append("b")], lambda: Element(required=["a", "b"]))
    s("properties reassigned", lambda: Element(properties={"a": Property(String())}),
      [lambda e: setattr(e, "properties", {"a": Property(Integer())})], lambda: Element(properties={"a": Property(Integer())}))
    s("properties reassigned, an old name omitted", lambda: Element(properties={"count": Property(Integer(), required=True), "label": Property(String())}, additionalProperties=False),
      [lambda e: setattr(e, "properties", {"label": Property(String())})], lambda: Element(properties={"label": Property(String())}, additionalProperties=False))
    s("properties reassigned twice", lambda: Element(properties={"a": Property(String(), required=True)}),
      [lambda e: setattr(e, "properties", {"b": Property(Integer(), required=True)}), lambda e: setattr(e, "properties", {"c": Property(String())})],
      lambda: Element(properties={"c": Property(String())}))
    s("properties reassigned to nothing", lambda: Element(properties={"a": Property(String(), required=True)}, additionalProperties=False),
      [lambda e: setattr(e, "properties", {})], lambda: Element(properties={}, additionalProperties=False))
    s("property added by item assignment", lambda: Element(properties={"a": Property(String())}),
      [lambda e: e.properties.__setitem__("b", Property(Integer(), required=True))],
      lambda: Element(properties={"a": Property(String()), "b": Property(Integer(), required=True)}))
    s("property removed", lambda: Element(properties={"a": Property(String(), required=True), "b": Property(Integer())}, additionalProperties=False),
      [lambda e: e.properties.__delitem__("a")], lambda: Element(properties={"b": Property(Integer())}, additionalProperties=False))
    s("property required flag flipped", lambda: Element(properties={"a": Property(String())}),
      [lambda e: setattr(e.properties["a"], "required", True)], lambda: Element(properties={"a": Property(String(), required=True)}))
    s("property added via update()", lambda: Element(properties={"a": Property(String())}, additionalProperties=False),
      [lambda e: e.properties.update({"b": Property(Integer())})],
      lambda: Element(properties={"a": Property(String()), "b": Property(Integer())}, additionalProperties=False))
    s("patternProperties added", lambda: Element(properties={"a": Property(String())}),
      [lambda e: setattr(e, "patternProperties", {"^a": Element(minLength=2)})],
      lambda: Element(properties={"a": Property(String())}, patternProperties={"^a": Element(minLength=2)}))
    s("additionalProperties closed", lambda: Element(properties={"a": Property(String())}),
      [lambda e: setattr(e, "additionalProperties", False)], lambda: Element(properties={"a": Property(String())}, additionalProperties=False))
    s("items element reconfigured", lambda: Array(String()), [lambda e: setattr(e.items, "pattern", "^x")], lambda: Array(String(pattern="^x")))
    s("items replaced", lambda: Element(items=String()), [lambda e: setattr(e, "items", Integer())], lambda: Element(items=Integer()))
    s("default changed", lambda: String(default="a"), [lambda e: setattr(e, "default", "b")], lambda: String(default="b"))
    s("default list changed", lambda: Array(Integer(), default=[1]), [lambda e: setattr(e, "default", [2, 3])], lambda: Array(Integer(), default=[2, 3]))

    def cls0():
        class M(Object):
            a = Property(String())
        return M

    def cls_closed():
        class M(Object, additionalProperties=False):
            a = Property(String())
        return M

    def cls_ab():
        class M(Object):
            a = Property(String())
            b = Property(Integer(), required=True)
        return M

    def cls_min():
        class M(Object, minProperties=2):
            a = Property(String())
        return M
    def cls_label():
        class M(Object, additionalProperties=False):
            label = Property(String())
        return M

    def cls_count_label():
        class M(Object, additionalProperties=False):
            count = Property(Integer(), required=True)
            label = Property(String())
        return M
    s("class properties reassigned, an old name omitted", cls_count_label, [lambda c: setattr(c, "properties", {"label": Property(String())})], cls_label)
    s("class additionalProperties assigned", cls0, [lambda c: setattr(c, "additionalProperties", False)], cls_closed)
    s("class property added", cls0, [lambda c: c.properties.__setitem__("b", Property(Integer(), required=True))], cls_ab)
    s("class minProperties assigned", cls0, [lambda c: setattr(c, "minProperties", 2)], cls_min)
    return S


def c13_reconfig(run):
    acc = Acc(run, "C13-reconfig", "reconfiguration scenarios (keyword reassignment, in-place list edits, properties added/replaced/removed by every dict method used, "
              "class attribute assignment) x {no call, one call, two calls} before the step x value pool; compared with a freshly built twin")
    w = quiet()
    try:
        vals = gen.values_for(None) + [{"label": "x"}, {"count": 1, "label": "x"}, {"count": "bad", "label": "x"}, {"c": "s"}, {"b": 1, "c": "s"}, {"a": "s", "b": 1}, {"b": 1}, {"a": "s", "b": "x"}, {"ab": "x"}, {"ab": "xyz"}, ["x1"], ["abc"], 0, 3, 10]
        for name, init, steps, final in c13_scenarios():
            for warm in (0, 1, 2):
                e = init()
                for _ in range(warm):
                    for v in vals[:: max(1, len(vals) // 25)]:
                        outcome(e, copy.deepcopy(v))
                    try:
                        e(pyspec._np()()) if not isinstance(e, type) else e()
                    except Exception:
                        pass
                try:
                    for st in steps:
                        st(e)
                except Exception as ex:
                    acc.case(f"{name}/warm{warm}")
                    acc.fail(f"{name}/warm{warm}", f"reconfiguration step raised {type(ex).__name__}: {ex}")
                    continue
                twin = final()
                for v in vals:
                    key = f"{name}/warm{warm} <- {jkey(v)}"
                    k1, r1 = outcome(e, copy.deepcopy(v))
                    k2, r2 = outcome(twin, copy.deepcopy(v))
                    acc.case(key, nontrivial=(k2 == "ok"))
                    if k1 != k2:
                        acc.fail(key, f"reconfigured element {k1} ({srepr(r1)[:80]}) but a freshly built element with the same configuration {k2}")
                    elif k1 == "ok" and obs(plain(r1)) != obs(plain(r2)):
                        acc.fail(key, f"reconfigured element returned {srepr(r1)[:80]}, fresh twin {srepr(r2)[:80]}")
                np = pyspec._np()()
                k1, r1 = outcome((lambda x: e(x)) if not isinstance(e, type) else (lambda x: e()), np)
                k2, r2 = outcome((lambda x: twin(x)) if not isinstance(twin, type) else (lambda x: twin()), np)
                acc.case(f"{name}/warm{warm} <- <no value>")
                if k1 != k2 or (k1 == "ok" and obs(plain(r1)) != obs(plain(r2))):
                    acc.fail(f"{name}/warm{warm} <- <no value>", f"default after reconfiguration: {srepr(r1)[:80]} vs fresh twin {srepr(r2)[:80]}")
    finally:
        w.__exit__(None, None, None)
    return acc.result()


# ------------------------------------------------------------------ C14 threads (smoke test, labelled as such)
def c14_threads(run):
    import sys
    acc = Acc(run, "C14-threads", "smoke test: 6 threads x element pool level 2, switch interval 1e-6, shared containers between documents; compared with sequential results")
    w = quiet()
    old = sys.getswitchinterval()
    sys.setswitchinterval(1e-6)
    try:
        vals = [v for v in gen.values_for(None)][::3]
        shared = [1, 2, 3]
        shared_d = {"a": "s"}
        vals += [[shared, shared], {"a": shared}, shared, shared_d, [shared_d], {"o": shared_d}]
        pool = list(element_cases(2))
        if run.tier == "quick":
            pool = pool[::2]
        for i, mk, e in pool:
            before = (obs(e), serial(e))
            seq = [outcome(e, copy.deepcopy(v)) for v in vals]
            results = [None] * 6
            barrier = threading.Barrier(6)

            def worker(t):
                barrier.wait()
                out = []
                order = vals[t:] + vals[:t]
                for v in order:
                    # shared containers are passed by identity on purpose
                    out.append(outcome(e, v if (v is shared or v is shared_d or isinstance(v, (list, dict)) and any(x is shared or x is shared_d for x in (v if isinstance(v, list) else v.values()))) else copy.deepcopy(v)))
                results[t] = out[len(vals) - t:] + out[:len(vals) - t]
            ts = [threading.Thread(target=worker, args=(t,)) for t in range(6)]
            for t in ts:
                t.start()
            for t in ts:
                t.join()
            for t in range(6):
                for v, (k1, r1), (k2, r2) in zip(vals, seq, results[t]):
                    key = f"{edesc(e)} <- {jkey(v)}"
                    acc.case(key + f" [thread {t}]", nontrivial=(k1 == "ok"))
                    if k1 != k2 or (k1 == "ok" and obs(plain(r1)) != obs(plain(r2))):
                        acc.fail(key, f"concurrent call: {k2} {srepr(r2)[:80]}; alone: {k1} {srepr(r1)[:80]}")
            if (obs(e), serial(e)) != before:
                acc.fail(f"{edesc(mk())} after concurrent use", "element tree changed by concurrent validation")
    finally:
        sys.setswitchinterval(old)
        w.__exit__(None, None, None)
    return acc.result()


# ------------------------------------------------------------------ C15 subclass = parent + additions
def c15_families():
    """Each: (name, builder returning (parent, child[, grandchild]) , flat builders returning the merged twins)."""
    from statham.schema.elements import Element, Integer, Number, Object, String
    from statham.schema.property import Property
    F = []

    def fam_basic():
        class Par(Object, required=["x"], minProperties=1):
            a = Property(String(), required=True)

        class Ch(Par, maxProperties=3):
            b = Property(Integer(), required=True)
        return [Par, Ch]

    def flat_basic():
        class Par(Object, required=["x"], minProperties=1):
            a = Property(String(), required=True)

        class Ch(Object, required=["x"], minProperties=1, maxProperties=3):
            a = Property(String(), required=True)
            b = Property(Integer(), required=True)
        return [Par, Ch]
    F.append(("basic", fam_basic, flat_basic))

    def fam_closed():
        class Par(Object, additionalProperties=False, patternProperties={"^p": Integer()}):
            a = Property(String())

        class Ch(Par):
            b = Property(Number(default=1))
            class_ = Property(String(), source="class")
        return [Par, Ch]

    def flat_closed():
        class Par(Object, additionalProperties=False, patternProperties={"^p": Integer()}):
            a = Property(String())

        class Ch(Object, additionalProperties=False, patternProperties={"^p": Integer()}):
            a = Property(String())
            b = Property(Number(default=1))
            class_ = Property(String(), source="class")
        return [Par, Ch]
    F.append(("closed", fam_closed, flat_closed))

    def fam_chain():
        class Base(Object):
            v = Property(String(), required=True)
            w = Property(Integer())

        class Mid(Base, dependencies={"w": ["v"]}):
            v = Property(Integer(), source="vee")

        class Leaf(Mid, propertyNames=Element(maxLength=3)):
            z = Property(String())
        return [Base, Mid, Leaf]

    def flat_chain():
        class Base(Object):
            v = Property(String(), required=True)
            w = Property(Integer())

        class Mid(Object, dependencies={"w": ["v"]}):
            v = Property(Integer(), source="vee")
            w = Property(Integer())

        class Leaf(Object, dependencies={"w": ["v"]}, propertyNames=Element(maxLength=3)):
            v = Property(Integer(), source="vee")
            w = Property(Integer())
            z = Property(String())
        return [Base, Mid, Leaf]
    F.append(("chain", fam_chain, flat_chain))

    def fam_override_kw():
        class Par(Object, default={"a": "d"}, const={"a": "d"}, additionalProperties=Integer()):
            a = Property(String())

        class Ch(Par, const={"a": "e"}, additionalProperties=True, description="child"):
            pass
        return [Par, Ch]

    def flat_override_kw():
        class Par(Object, default={"a": "d"}, const={"a": "d"}, additionalProperties=Integer()):
            a = Property(String())

        class Ch(Object, default={"a": "d"}, const={"a": "e"}, additionalProperties=True, description="child"):
            a = Property(String())
        return [Par, Ch]
    F.append(("override-keywords", fam_override_kw, flat_override_kw))

    # overrides with *falsy* values (an empty required list lifts the parent's requirement, 0 / {} / [] are values too)
    def fam_falsy():
        class Par(Object, required=["name"], minProperties=1, default={"name": "d"}, dependencies={"a": ["name"]}, patternProperties={"^n": String()}):
            name = Property(String())

        class Ch(Par, required=[], minProperties=0, default={}, dependencies={}, patternProperties={}):
            nick = Property(String())

        class Gr(Ch):
            age = Property(Integer())
        return [Par, Ch, Gr]

    def flat_falsy():
        class Par(Object, required=["name"], minProperties=1, default={"name": "d"}, dependencies={"a": ["name"]}, patternProperties={"^n": String()}):
            name = Property(String())

        class Ch(Object, required=[], minProperties=0, default={}, dependencies={}, patternProperties={}):
            name = Property(String())
            nick = Property(String())

        class Gr(Object, required=[], minProperties=0, default={}, dependencies={}, patternProperties={}):
            name = Property(String())
            nick = Property(String())
            age = Property(Integer())
        return [Par, Ch, Gr]
    F.append(("falsy-overrides", fam_falsy, flat_falsy))

    # every class keyword inherited untouched through two levels
    def fam_inherit_all():
        class Par(Object, required=["k"], minProperties=1, maxProperties=3, propertyNames=Element(maxLength=4), enum=[{"k": 1}, {"k": 2, "a": "s"}],
                  dependencies={"a": ["k"]}, patternProperties={"^z": Integer()}, additionalProperties=False):
            k = Property(Integer())
            a = Property(String())

        class Ch(Par):
            pass

        class Gr(Ch):
            pass
        return [Par, Ch, Gr]

    def flat_inherit_all():
        def mk(name):
            class K(Object, required=["k"], minProperties=1, maxProperties=3, propertyNames=Element(maxLength=4), enum=[{"k": 1}, {"k": 2, "a": "s"}],
                    dependencies={"a": ["k"]}, patternProperties={"^z": Integer()}, additionalProperties=False):
                k = Property(Integer())
                a = Property(String())
            K.__name__ = K.__qualname__ = name
            return K
        return [mk("Par"), mk("Ch"), mk("Gr")]
    F.append(("inherit-all", fam_inherit_all, flat_inherit_all))
    return F


C15_VALUES = [{"name": "n"}, {"nick": "y"}, {"age": 3}, {"name": 1}, {"a": 1, "name": "n"}, {"k": 1}, {"k": 2, "a": "s"}, {"k": 3}, {"a": "s"}, {"k": 1, "z1": 1},
              {"k": 1, "long_name": 1}, {}, {"a": "s"}, {"a": "s", "x": 1}, {"a": "s", "x": 1, "b": 2}, {"a": "s", "x": 1, "b": "no"}, {"x": 1, "b": 2},
              {"a": "s", "x": 1, "b": 2, "c": 3}, {"a": 1}, {"b": 2}, {"b": 2.5}, {"p1": 1}, {"p1": "s"}, {"class": "k"}, {"class_": "k"},
              {"q": 1}, {"v": "s"}, {"vee": 1}, {"vee": "s"}, {"v": 1}, {"w": 1}, {"w": 1, "vee": 2}, {"w": 1, "v": "s"}, {"vee": 1, "z": "s"},
              {"vee": 1, "long": 1}, {"a": "d"}, {"a": "e"}, {"a": "d", "n": 1}, {"a": "e", "n": "s"}, 1, "s", None, []]


def c15_inheritance(run):
    from statham.serializers.json import serialize_json
    acc = Acc(run, "C15-inheritance", "4 parent/child(/grandchild) families vs flat twins x value pool x orders {child first, parent first, parent used then child, "
              "child used then parent reconfigured}; verdicts, models, serialize_json, isinstance")
    w = quiet()

    def use(cls, vals):
        return [outcome(cls, copy.deepcopy(v)) for v in vals]
    try:
        for name, fam, flat in c15_families():
            for order in ("child-first", "parent-first"):
                classes = fam()
                twins = flat()
                idxs = list(range(len(classes)))
                if order == "child-first":
                    idxs = idxs[::-1]
                first = {}
                for i in idxs:
                    first[i] = use(classes[i], C15_VALUES)
                for i in range(len(classes)):
                    want = use(twins[i], C15_VALUES)
                    got2 = use(classes[i], C15_VALUES)
                    for v, (k0, r0), (k1, r1), (k2, r2) in zip(C15_VALUES, first[i], want, got2):
                        key = f"{name}/{order}/{classes[i].__name__} <- {jkey(v)}"
                        acc.case(key, nontrivial=(k1 == "ok"))
                        for label, (k, r) in (("first use", (k0, r0)), ("after relatives were used", (k2, r2))):
                            if k != k1:
                                acc.fail(key, f"{label}: inherited class {k} but the flat declaration {k1}")
                            elif k == "ok" and obs(plain(r)) != obs(plain(r1)):
                                acc.fail(key, f"{label}: model {srepr(r)[:80]} vs flat declaration {srepr(r1)[:80]}")
                        if k0 == "ok" and i > 0 and isinstance(v, dict) and not isinstance(r0, classes[0]):
                            acc.fail(key, "instance of the subclass is not an instance of the parent")
                    try:
                        a, b = serialize_json(classes[i]), serialize_json(twins[i])
                        if jkey(a) != jkey(b):
                            acc.fail(f"{name}/{order}/{classes[i].__name__} [json]", f"serialises as {jkey(a)[:200]} but the flat declaration as {jkey(b)[:200]}")
                    except Exception as ex:
                        acc.fail(f"{name}/{order}/{classes[i].__name__} [json]", f"serialize_json raised {type(ex).__name__}: {ex}")
            # reconfiguring the child must not change the parent
            classes = fam()
            twins = flat()
            par, ch = classes[0], classes[-1]
            before = (use(par, C15_VALUES), jkey(serialize_json(par)), obs(par))
            from statham.schema.elements import String as _S
            from statham.schema.property import Property as _P
            try:
                ch.additionalProperties = False
                ch.properties["extra"] = _P(_S(), required=True)
                ch.maxProperties = 1
                ch.required = ["zz"]
                for n in list(ch.properties)[:1]:
                    del ch.properties[n]
            except Exception as ex:
                acc.fail(f"{name}/reconfigure-child", f"reconfiguring the child raised {type(ex).__name__}: {ex}")
            use(ch, C15_VALUES)
            after = (use(par, C15_VALUES), jkey(serialize_json(par)), obs(par))
            acc.case(f"{name}/reconfigure-child")
            if [(k, obs(plain(r)) if k == "ok" else None) for k, r in before[0]] != [(k, obs(plain(r)) if k == "ok" else None) for k, r in after[0]] \
                    or before[1] != after[1] or before[2] != after[2]:
                acc.fail(f"{name}/reconfigure-child", "defining/using/reconfiguring the subclass changed how the parent validates or serialises")
    finally:
        w.__exit__(None, None, None)
    return acc.result()
