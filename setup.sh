#!/bin/bash
# Offline setup: nothing is built or fetched; verify the interpreters and solver binaries the checks use.
set -e
cd "$(dirname "$0")"
/venv/bin/python -c "import sys; assert sys.version_info >= (3, 10)"
for b in z3-new /usr/bin/z3 /usr/bin/cvc5; do command -v "$b" >/dev/null || { echo "missing solver $b"; exit 1; }; done
echo '(check-sat)' > /tmp/.pyvc_probe.smt2 && z3-new /tmp/.pyvc_probe.smt2 | grep -q sat; rm -f /tmp/.pyvc_probe.smt2
mkdir -p evidence replays out
echo setup ok
