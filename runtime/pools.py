"""Concrete argument pools per contract (witness search / native cross-check / bounded stand-in)."""
import importlib
import inspect
import itertools

from bounded import gen


def resolve(key):
    """'pkg.mod:Qual.name' -> live (owner, attribute object)."""
    modname, qual = key.split(":")
    qual = qual.replace("@setter", "")
    obj = importlib.import_module(modname)
    owner = None
    for p in qual.split("."):
        owner = obj
        if inspect.isfunction(obj):
            return owner, None       # nested function: no live handle
        obj = inspect.getattr_static(obj, p) if inspect.isclass(obj) else getattr(obj, p)
    return owner, obj


def live_function(key, inst=None):
    owner, obj = resolve(key)
    if obj is None:
        return None
    if isinstance(obj, (staticmethod, classmethod)):
        return obj.__func__
    if isinstance(obj, property):
        return obj.fset if key.endswith("@setter") else obj.fget
    return obj


_validators_cache = None


def all_validators():
    """Validator instances harvested from the element pool (real from_element paths), by class name."""
    global _validators_cache
    if _validators_cache is None:
        by = {}
        for mk in gen.elements(2):
            try:
                e = mk()
                vs = list(e.validators)
            except Exception:
                continue
            for v in vs:
                by.setdefault(type(v).__name__, []).append(v)
        # parameter values the element pool does not contain (unanchored patterns, zero / fractional / negative limits, ...)
        from statham.schema.elements import Element
        for kw in ({"pattern": "b$"}, {"pattern": "b"}, {"pattern": "a|b"}, {"pattern": ""}, {"pattern": "^a.c$"},
                   {"minimum": -1}, {"minimum": 0}, {"minimum": 2.5}, {"maximum": -1}, {"maximum": 0}, {"maximum": 2.5},
                   {"exclusiveMinimum": 0}, {"exclusiveMinimum": 1.5}, {"exclusiveMaximum": 0}, {"exclusiveMaximum": 1.5},
                   {"multipleOf": 3}, {"multipleOf": 0.5}, {"multipleOf": 2.5}, {"minLength": 0}, {"minLength": 3}, {"maxLength": 0}, {"maxLength": 2},
                   {"minItems": 0}, {"minItems": 2}, {"maxItems": 0}, {"maxItems": 2}, {"minProperties": 0}, {"maxProperties": 0}, {"maxProperties": 1},
                   {"const": []}, {"const": {}}, {"const": True}, {"const": 1.0}, {"const": [1, {"a": [True]}]}, {"enum": [[1], {"a": 1.0}, "s", None]},
                   {"enum": []}, {"required": []}, {"required": ["a", "b"]}, {"dependencies": {"a": ["b", "c"], "b": []}}, {"format": "date-time"}, {"format": "uuid"},
                   {"format": "no-such-format"}, {"uniqueItems": True}):
            try:
                for v in Element(**kw).validators:
                    if type(v).__name__ not in ("InstanceOf", "AdditionalProperties", "AdditionalItems"):
                        by.setdefault(type(v).__name__, []).insert(0, v)
            except Exception:
                continue
        _validators_cache = by
    return _validators_cache


def element_makers(level=2):
    return list(gen.elements(level))


def instances_of(cls_name):
    out = []
    for mk in element_makers():
        try:
            e = mk()
        except Exception:
            continue
        if type(e).__name__ == cls_name:
            out.append(mk)
    return out


KEYS = ["a", "b", "ab", "a-b", "a_b", "class", "", "x1", "zz", "p1"]


def pool(contract, seed=0, limit=4000):
    """Yield (callable, args) pairs to run under the contract's runtime monitor."""
    from statham.schema.elements.base import UNBOUND_PROPERTY
    key = contract.key
    qual = key.split(":")[1]
    fn = live_function(key)
    if fn is None:
        return
    cls_name = qual.split(".")[0] if "." in qual else None
    meth = qual.split(".")[-1].replace("@setter", "")
    n = 0

    def cap(it):
        nonlocal n
        for x in it:
            yield x
            n += 1
            if n >= limit:
                return
    vals = gen.values_for(None)
    if qual.endswith("._validate") or (qual.endswith(".__call__") and "validation" in key and cls_name == "Validator") \
            or (cls_name == "Validator" and meth in ("error_message",)) or (key.endswith("error_message") and "validation" in key):
        cname = contract.inst or cls_name
        insts = all_validators().get(cname, [])
        if meth == "error_message":
            yield from cap((fn, (v,)) for v in insts)
            return
        # values of the validator's own types first, the compound ones (generated last) before the simple ones: the differences
        # between == and look-alikes (canonical text, hashing) only show on nested values
        def ordered(v):
            ts = tuple(t for t in (getattr(v, "types", None) or ()) if isinstance(t, type))
            own = [x for x in vals if ts and isinstance(x, ts) and not (isinstance(x, bool) and bool not in ts)]
            rest = [x for x in vals if not any(x is y for y in own)]
            return own[::-1] + rest
        if meth == "_validate":
            yield from cap((fn, (v, val)) for v in insts for val in ordered(v))
        else:
            yield from cap((fn, (v, val, UNBOUND_PROPERTY)) for v in insts for val in ordered(v))
        return
    if meth == "from_element":
        owner, _ = resolve(key)
        cls = owner
        if contract.inst:
            import statham.schema.validation as V
            cls = getattr(V, contract.inst)

        def gen_fe():
            for mk in element_makers():
                try:
                    yield fn, (cls, mk())
                except Exception:
                    continue
        yield from cap(gen_fe())
        return
    if cls_name == "Element" and contract.inst == "@cls":
        from statham.schema.elements import Object, String
        from statham.schema.property import Property
        yield from cap((fn, (k,)) for k in (Object, Object.inline("A", properties={"a": Property(String(), required=True)}),
                                             Object.inline("B", additionalProperties=False, patternProperties={"^x": String()})))
        return
    if cls_name == "Element" and meth in ("validators", "type_validator", "__items__", "__properties__", "annotation") and (contract.inst or meth != "annotation"):
        yield from cap((fn, (mk(),)) for mk in instances_of(contract.inst or "Element"))
        return
    if cls_name in ("String", "Integer", "Number", "Boolean", "Null", "Array", "Nothing") and meth in ("type_validator", "validators"):
        yield from cap((fn, (mk(),)) for mk in instances_of(cls_name))
        return
    if cls_name == "Element" and meth == "__call__" and contract.inst:
        from statham.schema.constants import NotPassed
        yield from cap((fn, (mk(), v, None)) for mk in instances_of(contract.inst) for v in [NotPassed()] + list(vals[::2]))
        return
    if cls_name == "Element" and meth == "construct":
        yield from cap((fn, (mk(), v, UNBOUND_PROPERTY)) for mk in instances_of(contract.inst or "Element") for v in vals)
        return
    if key.endswith(":get_validators"):
        yield from cap((fn, (mk(),)) for mk in element_makers())
        return
    if key.endswith(":replace_bool") or key.endswith(":_parse_literal"):
        yield from cap((fn, (v,)) for v in gen.json_values(2, 2))
        return
    if key.endswith(":_is_instance"):
        tys = [(int,), (int, float), (bool,), (str,), (list,), (dict,), (), (bool, int), (type(None),)]
        yield from cap((fn, (v, t)) for v in vals for t in tys)
        return
    if cls_name == "Items":
        def items_objs():
            # tuple items first, then single items / additionalItems, then the rest (the behaviour of an Items object that matters
            # needs declared items; the first such pair used to sit beyond the quick evaluation limit)
            from statham.schema.constants import NotPassed
            ranked = ([], [], [])
            for mk in element_makers():
                try:
                    e = mk()
                    it = getattr(e, "items", NotPassed())
                    rank = 0 if isinstance(it, list) else 1 if (not isinstance(it, NotPassed) or getattr(e, "additionalItems", True) is not True) else 2
                    ranked[rank].append(e)
                except Exception:
                    continue
            for group in ranked:
                for e in group:
                    try:
                        yield e.__items__
                    except Exception:
                        continue
        if meth == "__getitem__":
            yield from cap((fn, (it, i)) for it in items_objs() for i in range(0, 4))
        elif meth == "__call__":
            lists = sorted([v for v in vals if isinstance(v, list)], key=len, reverse=True)
            yield from cap((fn, (it, v, UNBOUND_PROPERTY)) for it in items_objs() for v in lists)
        elif meth == "property":
            yield from cap((fn, (UNBOUND_PROPERTY, i)) for i in range(3))
        elif meth == "__init__":
            from statham.schema.elements import Element, Nothing, String
            from statham.schema.elements.items import Items
            from statham.schema.constants import NotPassed
            from statham.schema.elements import Number
            for items in (NotPassed(), String(), Nothing(), [], [String()], Element(), [Nothing()]):
                for addl in (True, False, String(), Nothing(), Number()):
                    yield fn, (Items.__new__(Items), items, addl)
        return
    if key.endswith("helpers:custom_repr_args") and contract.inst:
        import statham.schema.elements as _E
        K = getattr(_E, contract.inst)
        full = {"String": dict(default="d", const="c", enum=["a", "c"], format="uuid", pattern="^a", minLength=1, maxLength=3, description="t"),
                "Integer": dict(default=0, const=1, enum=[1, 2], minimum=0, maximum=9, exclusiveMinimum=-1, exclusiveMaximum=10, multipleOf=1, description=""),
                "Number": dict(default=0.5, const=1.5, enum=[1.5], minimum=0.0, maximum=9, exclusiveMinimum=-1, exclusiveMaximum=10.5, multipleOf=0.5, description="n"),
                "Boolean": dict(default=False, const=True, enum=[True, False], description="b"),
                "Null": dict(default=None, const=None, enum=[None], description="z")}[contract.inst]
        extra = [lambda: K(), lambda: K(**full)] + [lambda k=k, v=v: K(**{k: v}) for k, v in full.items()]
        yield from cap((fn, (mk(),)) for mk in list(instances_of(contract.inst)) + extra)
        return
    if cls_name == "_PropertyDict" and meth == "required":
        def pdicts():
            for mk in element_makers():
                try:
                    e = mk()
                    p = getattr(e, "properties", None)
                    if p is not None and type(p).__name__ == "_PropertyDict":
                        yield p
                except Exception:
                    continue
        yield from cap((fn, (p,)) for p in pdicts())
        return
    if cls_name == "Properties" and meth == "__init__":
        from statham.schema.constants import NotPassed
        from statham.schema.elements.properties import Properties

        def init_args():
            for mk in element_makers():
                try:
                    e = mk()
                    yield fn, (Properties.__new__(Properties), e, getattr(e, "properties", NotPassed()), getattr(e, "patternProperties", NotPassed()),
                               getattr(e, "additionalProperties", True))
                except Exception:
                    continue
        yield from cap(init_args())
        return
    if key.endswith("_FormatString.register._register_callable"):
        return      # nested function: no live handle
    if cls_name in ("Properties", "PatternDict"):
        def props_objs():
            # elements that constrain their members first: the interesting behaviour of a Properties object needs declared /
            # pattern / additional properties (the first failing (properties, value) pair used to sit beyond the search limit)
            later = []
            for mk in element_makers():
                try:
                    e = mk()
                    if getattr(e, "properties", None) or getattr(e, "patternProperties", None) or getattr(e, "additionalProperties", True) is not True:
                        yield e.__properties__
                    else:
                        later.append(e)
                except Exception:
                    continue
            for e in later:
                try:
                    yield e.__properties__
                except Exception:
                    continue
        if cls_name == "PatternDict":
            yield from cap((lambda p, k: list(p.getall(k)), (po.pattern, k)) for po in props_objs() for k in KEYS) if False else cap(
                (fn, (po.pattern, k)) for po in props_objs() for k in KEYS)
            return
        if meth in ("__getitem__", "__contains__"):
            yield from cap((fn, (po, k)) for po in props_objs() for k in KEYS)
        elif meth == "__call__":
            yield from cap((fn, (po, v)) for po in props_objs() for v in vals if isinstance(v, dict))
        elif meth == "property":
            from statham.schema.elements import String
            yield from cap((fn, (po, String(), k)) for po in props_objs() for k in KEYS[:4])
        return
    if cls_name == "_Property":
        def props():
            for mk in element_makers():
                try:
                    e = mk()
                    for p in (getattr(e, "properties", None) or {}).values():
                        yield p
                except Exception:
                    continue
            from statham.schema.elements import String
            from statham.schema.property import Property
            yield Property(String())
            yield Property(String(), source="")
            yield Property(String(), required=True, source="x")
            from statham.schema.elements import Array, Element, Integer
            for el in (String(default=""), Integer(default=0), Element(default=None), Array(String(), default=[]), Element(default=False)):
                yield Property(el)
        if meth == "bind":
            from statham.schema.elements import Element
            yield from cap((fn, (p.clone(), nm, par)) for p in props() for nm in ("a", "", None) for par in (None, Element()))
        elif meth in ("clone", "annotation"):
            yield from cap((fn, (p,)) for p in props())
        elif meth == "__eq__":
            ps = list(itertools.islice(props(), 40))
            from statham.schema.elements import String
            from statham.schema.property import Property
            ps += [Property(String(), source="x"), Property(String(), source="y"), Property(String(), required=True)]
            yield from cap((fn, (a, b)) for a in ps[-12:] for b in ps[-12:] + [1, None, "s"])
        elif meth == "evolve":
            yield from cap((fn, (p, nm)) for p in props() for nm in ("a", "b[0]", ""))
        elif meth == "__call__":
            yield from cap((fn, (p, v)) for p in props() for v in vals[::3])
        return
    if key.endswith("format:_FormatString.__call__"):
        from statham.schema.validation.format import format_checker
        if "Verif-Mixed-Case" not in format_checker._callable_register:
            format_checker.register("Verif-Mixed-Case")(lambda v: False)
        names = ["uuid", "date-time", "UUID", "Date-Time", "x-unregistered", "X-Unregistered", "Verif-Mixed-Case", "verif-mixed-case", ""]
        svals = ["123e4567-e89b-12d3-a456-426614174000", "not-a-uuid", "2020-01-01T00:00:00Z", "", "abc"]
        yield from cap((fn, (format_checker, n_, v)) for n_ in names for v in svals)
        return
    if key.startswith("spec.lemma_stubs:vals_"):
        # lemma carriers: real elements, their real validator lists, real values (shows the hypotheses are satisfiable and
        # evaluates the conclusion natively)
        only_classes = "cls" in (contract.inst or "")
        inst0 = (contract.inst or "").split(".")[0]
        TYPES_OF = {"types__": ("Element", "Not", "AnyOf", "OneOf", "AllOf"), "types_str__": ("String",), "types_int__": ("Integer",), "types_float__int_": ("Number",),
                    "types_bool__": ("Boolean",), "types_NoneType__": ("Null",), "types_list__": ("Array",)}
        want_classes = TYPES_OF.get(inst0) or ((inst0,) if inst0 in ("Element", "String", "Integer", "Number", "Boolean", "Null", "Array", "Not", "AnyOf", "OneOf", "AllOf") else None)

        def triples():
            for mk in element_makers():
                try:
                    from spec import pyspec
                    e = mk()
                    if only_classes and not isinstance(e, type):
                        continue
                    if want_classes and type(e).__name__ not in want_classes:
                        continue
                    vs = pyspec.validators_of(e)
                except Exception:
                    continue
                for x in vals[::3]:
                    yield e, vs, x
        if qual == "vals_bwd":
            want = "InstanceOf" if (contract.inst or "").startswith("types") else contract.inst
            yield from cap((fn, (e, vs, x, m)) for e, vs, x in triples() for m in vs if type(m).__name__ == want)
        else:
            yield from cap((fn, (e, vs, x)) for e, vs, x in triples())
        return
    if key.endswith("orderer:get_children") or key.endswith("orderer:_get_path"):
        def elems():
            from statham.schema.elements import Array, Element, Object, String, AnyOf, Not
            from statham.schema.property import Property
            yield from special()
            for mk in element_makers():
                try:
                    yield mk()
                except Exception:
                    continue

        def special():
            from statham.schema.elements import Array, Element, Object, String, AnyOf, Not
            from statham.schema.property import Property
            inner = String()
            yield Array(inner, contains=Element(), additionalItems=False)
            yield Array([inner, Element()], additionalItems=String())
            yield Array(inner, additionalItems=String())
            yield Element(additionalItems=Element(minimum=1))
            yield Element(propertyNames=String(maxLength=3), additionalProperties=Array(inner), patternProperties={"^x": inner},
                          dependencies={"a": inner, "b": ["a"]}, properties={"a": Property(inner)})
            yield AnyOf(inner, Not(inner))
            # one position each, so that a dropped path has a witness of its own
            yield Element(properties={"p": Property(Array(String())), "q": Property(Element(minimum=1), required=True)})
            yield Element(patternProperties={"^x": Array(String())})
            yield Element(dependencies={"a": Element(required=["b"]), "b": ["a"]})
            yield Object.inline("PoolModel", properties={"p": Property(Array(String()))})
        if key.endswith("get_children"):
            yield from cap((fn, (e, s)) for e in elems() for s in (None, set()))
        elif contract.inst in ("*", "*.element"):
            # receivers of the `*` segment: the dict-valued keyword attributes themselves (and NotPassed)
            from statham.schema.constants import NotPassed
            def recvs():
                yield NotPassed()
                for e in elems():
                    for a in (("patternProperties", "dependencies") if contract.inst == "*" else ("_properties",)):
                        v = getattr(e, a, None)
                        if v is not None:
                            yield v
            yield from cap((fn, (r, contract.inst)) for r in recvs())
        else:
            yield from cap((fn, (e, contract.inst)) for e in elems())
        return
    if key.endswith(":_attempt_schema"):
        yield from cap((fn, (mk(), v, UNBOUND_PROPERTY)) for mk in element_makers(1) for v in vals[::4])
        return
    if key.endswith(":_attempt_schemas"):
        from statham.schema.elements import Element, Integer, String, Number
        groups = [[String(), Integer()], [Integer(), Number()], [Element(minimum=1), Element(maximum=3)], [String()], [Element(), Element()]]
        yield from cap((fn, (g, v, UNBOUND_PROPERTY, m)) for g in groups for v in vals[::2] for m in ("anyOf", "oneOf", "allOf"))
        return
    if key.endswith(":_serialize_element"):
        import statham.schema.elements as E_
        from statham.schema.elements import Element, String, Integer, Array
        from statham.schema.property import Property
        K = getattr(E_, contract.inst) if contract.inst else Element
        kw = {"Element": {}, "String": {"minLength": 1}, "Integer": {"minimum": 0}, "Array": {"items": String()}}.get(K.__name__, {})
        def mk(**more):
            try:
                return K(**{**kw, **more})
            except TypeError:
                return K(**kw)
        els = [mk(), mk(default=None), mk(description="d"),
               Element(properties={"a": Property(String())}), Element(properties={"a": Property(String(), required=True)}),
               Element(properties={"class_": Property(String(), source="class", required=True), "b": Property(Integer())}),
               Element(properties={"x": Property(String(), source="$x"), "y": Property(String(), source="y y", required=True)}, required=["k"]),
               Element(properties={"a": Property(String(), required=True)}, required=["a", "b"]), Element(required=["z"]), Element(required=[]),
               Element(properties={"m": Property(Element(default=1), source="M", required=True), "n": Property(String(), required=True)}, default={"M": 1}),
               Element(properties={"blank": Property(String(), source=""), "other": Property(String(), required=True)}),
               Element(properties={"class_": Property(String(), source="class", required=True)}, required=["class_"]),
               mk(items=E_.Nothing()), mk(items=[]), mk(patternProperties={}), mk(dependencies={}), mk(additionalItems=False), mk(additionalProperties=False),
               mk(uniqueItems=True), mk(enum=[]), mk(const=None), mk(const=0), mk(minItems=0), mk(description=""), mk(contains=E_.Nothing()), mk(propertyNames=E_.Nothing()),
               mk(additionalItems=E_.Nothing()), mk(additionalProperties=String())]
        yield from cap((fn, (e,)) for e in els if type(e) is K)
        return
    if key.endswith(":_compose_elements"):
        import statham.schema.elements as E_
        from statham.schema.elements import Element, Integer, String, Nothing
        K = getattr(E_, contract.inst) if contract.inst else E_.AllOf
        shared = String(default="s")
        groups = [[], [String()], [shared], [Integer(), String()], [Element(), Element(), Nothing()], [shared, shared], [Element(default=0)], [Element(minimum=1), Element(maximum=3), Integer()]]
        yield from cap((fn, (K, list(g))) for g in groups)
        return
    if key.endswith("Element.__init__") and cls_name == "Element":
        from statham.schema.elements import Element, String
        from statham.schema.property import Property
        from statham.schema.constants import NotPassed
        kws = [{}, {"default": 0}, {"minimum": 1, "maximum": 2}, {"items": String(), "additionalItems": False}, {"properties": {"a": Property(String())}}, {"required": ["a"], "description": "d"},
               {"enum": [1, 2], "const": 1, "uniqueItems": True}, {"patternProperties": {"^a": String()}, "additionalProperties": False, "propertyNames": String()},
               {"dependencies": {"a": ["b"]}, "minProperties": 1, "maxProperties": 2, "format": "uri", "pattern": "^a", "minLength": 1, "maxLength": 2, "minItems": 0, "maxItems": 3,
                "contains": String(), "multipleOf": 2, "exclusiveMinimum": 0, "exclusiveMaximum": 9}]
        import functools
        yield from cap((functools.partial(fn, **kw), (Element.__new__(Element),)) for kw in kws)      # partial keeps the signature the monitor binds against
        return
    if cls_name == "Not" and meth == "construct":
        yield from cap((fn, (mk(), v, UNBOUND_PROPERTY)) for mk in instances_of("Not") for v in vals)
        return
    if key.split(":")[0].endswith("parser") and meth in ("parse_element", "_parse_contains", "_parse_property_names", "_parse_additional_properties",
                                                         "_parse_additional_items", "_parse_items", "_parse_properties", "_parse_pattern_properties",
                                                         "_parse_dependencies"):
        import copy
        from bounded import schemas
        docs = schemas.quick()
        for kw in ("if", "then", "$defs", "unevaluatedItems"):
            docs += [{kw: {}}, {"type": "string", kw: {}}, {"contains": {kw: {}}}, {"propertyNames": {kw: True}}, {"additionalProperties": {kw: {}}},
                     {"items": [{}], "additionalItems": {kw: {}}}, {"additionalItems": {kw: {}}}, {"items": {"type": "string"}, "additionalItems": {kw: {}}},
                     {"properties": {"a": {}}, "additionalProperties": {kw: {}}},
                     {"items": {kw: {}}}, {"items": [{}, {kw: {}}]}, {"items": [{kw: {}}]}, {"items": [{"type": "string"}, True]},
                     {"properties": {"a": {kw: {}}}}, {"properties": {"a": {"type": "string"}, "b": {kw: True}}, "required": ["a"]},
                     {"patternProperties": {"^a": {kw: {}}}}, {"patternProperties": {"^a": {}, "^b": {kw: {}}}},
                     {"dependencies": {"a": {kw: {}}, "b": ["a"]}}, {"dependencies": {"a": ["b"], "c": {"type": "object", "title": "T"}, "d": {kw: 1}}}]
        yield from cap((fn, (copy.deepcopy(d), None)) for d in docs)
        return
    if cls_name == "Object" and meth == "__new__":
        from statham.schema.elements import Object, String, Integer
        from statham.schema.property import Property
        A = Object.inline("A", properties={"a": Property(String(), required=True)})
        B = Object.inline("B", properties={"a": Property(String())}, default={"a": "x"})
        C = Object.inline("C", properties={"a": Property(Integer())}, default={"a": "not an int"})
        D = Object.inline("D", properties={"a": Property(String(default="d"), required=True)}, minProperties=1, additionalProperties=False)
        E_ = Object.inline("E", default=None)
        insts = []
        for k in (A, B, D):
            try:
                insts.append(k({"a": "v"}))
            except Exception:
                pass
        from statham.schema.constants import NotPassed
        yield from cap((fn, (k, v, UNBOUND_PROPERTY)) for k in (A, B, C, D, E_) for v in [NotPassed()] + list(vals[::2]) + insts)
        return
    if cls_name == "ObjectMeta" and meth in ("validators", "type_validator"):
        from statham.schema.elements import Object, String
        from statham.schema.property import Property
        yield from cap((fn, (k,)) for k in (Object, Object.inline("A", properties={"a": Property(String(), required=True)}), Object.inline("B", minProperties=1)))
        return
    if cls_name == "ObjectMeta" and meth == "annotation":
        from statham.schema.elements import Object
        from statham.schema.elements.meta import ObjectMeta
        yield from cap((fn, (c,)) for c in [Object, Object.inline("A"), Object.inline("class_", properties={})])
        return
    # generic: by parameter names
    try:
        params = list(inspect.signature(fn).parameters)
    except (TypeError, ValueError):
        return
    choices = []
    for p in params:
        if p in ("value", "literal", "data"):
            choices.append([lambda v=v: v for v in vals])
        elif p in ("element", "self", "dependency"):
            choices.append(element_makers())
        elif p in ("property_", "_property"):
            choices.append([lambda: UNBOUND_PROPERTY])
        else:
            return
    for combo in itertools.product(*choices):
        try:
            args = tuple(c() for c in combo)
        except Exception:
            continue
        yield fn, args
        n += 1
        if n >= limit:
            return
