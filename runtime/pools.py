"""Concrete argument pools per contract (witness search / bounded stand-in)."""
import importlib
import inspect
import itertools

from bounded import gen


def resolve(key):
    """'pkg.mod:Qual.name' -> live (owner, attribute object)."""
    modname, qual = key.split(":")
    obj = importlib.import_module(modname)
    owner = None
    for p in qual.split("."):
        owner = obj
        obj = inspect.getattr_static(obj, p) if inspect.isclass(obj) else getattr(obj, p)
    return owner, obj


def live_function(key, inst=None):
    owner, obj = resolve(key)
    if isinstance(obj, (staticmethod, classmethod)):
        return obj.__func__
    if isinstance(obj, property):
        return obj.fget
    return obj


_validators_cache = None


def all_validators():
    """Validator instances harvested from the element pool (real from_element paths), by class name."""
    global _validators_cache
    if _validators_cache is None:
        from statham.schema.elements.meta import ObjectMeta
        by = {}
        for mk in gen.elements(2):
            try:
                e = mk()
            except Exception:
                continue
            try:
                vs = list(e.validators)
            except Exception:
                continue
            for v in vs:
                by.setdefault(type(v).__name__, []).append(v)
        _validators_cache = by
    return _validators_cache


def element_instances(level=2):
    out = []
    for mk in gen.elements(level):
        try:
            out.append(mk)
        except Exception:
            pass
    return out


def pool(contract, seed=0, limit=4000):
    """Yield (callable, args) pairs to run under the contract's runtime monitor."""
    key = contract.key
    qual = key.split(":")[1]
    fn = live_function(key)
    params = list(inspect.signature(fn).parameters)
    n = 0
    if qual.endswith("._validate") or (qual.endswith(".__call__") and "validation" in key):
        cname = contract.inst or qual.split(".")[0]
        insts = all_validators().get(cname, [])
        for v in insts:
            for val in gen.values_for(None):
                if qual.endswith("._validate"):
                    yield fn, (v, val)
                else:
                    from statham.schema.elements.base import UNBOUND_PROPERTY
                    yield fn, (v, val, UNBOUND_PROPERTY)
                n += 1
                if n >= limit:
                    return
        return
    if qual.endswith(".from_element"):
        owner, _ = resolve(key)
        cls = owner
        if contract.inst:
            import statham.schema.validation as V
            cls = getattr(V, contract.inst)
        for mk in element_instances():
            try:
                e = mk()
            except Exception:
                continue
            yield fn, (cls, e)
        return
    # generic: by parameter names
    choices = []
    for p in params:
        if p in ("value", "literal", "data"):
            choices.append([lambda v=v: v for v in gen.values_for(None)])
        elif p in ("element", "self", "dependency"):
            choices.append(element_instances())
        elif p in ("property_", "_property"):
            from statham.schema.elements.base import UNBOUND_PROPERTY
            choices.append([lambda: UNBOUND_PROPERTY])
        else:
            return
    for combo in itertools.product(*choices):
        try:
            args = tuple(c() for c in combo)
        except Exception:
            continue
        yield fn, args
        n += 1
        if n >= limit:
            return
