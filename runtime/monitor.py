"""Runtime compilation of contracts: the same clauses, evaluated natively around the real function.

Used for (1) replaying solver counterexamples, (2) witness search when a model does not reify,
(3) the bounded stand-in tier.  Nothing here is counted as proof.
"""
import ast
import copy
import inspect
import warnings

from spec import pyspec


class _OldCollector(ast.NodeTransformer):
    """old(E) -> a name bound to E's value in the pre-state (snapshot for plain containers, reference for objects)."""
    def __init__(self):
        self.items = []

    def visit_Call(self, node):
        if isinstance(node.func, ast.Name) and node.func.id == "old" and len(node.args) == 1:
            name = f"_old_{len(self.items)}"
            self.items.append((name, ast.Expression(body=_IsToSame().visit(node.args[0]))))
            return ast.Name(id=name, ctx=ast.Load())
        self.generic_visit(node)
        return node


def split_old(src):
    """Returns (code of the clause with old(..) replaced by names, [(name, code of the pre-state expression)])."""
    key = ("old", src)
    if key not in _cache:
        tree = ast.parse(src, mode="eval")
        coll = _OldCollector()
        tree = coll.visit(tree)
        tree = ast.fix_missing_locations(_IsToSame().visit(tree))
        pre = [(n, compile(ast.fix_missing_locations(e), "<old>", "eval")) for n, e in coll.items]
        _cache[key] = (compile(tree, f"<contract: {src[:40]}>", "eval"), pre)
    return _cache[key]


def snapshot(v):
    import copy
    if isinstance(v, (list, dict)) and pyspec.is_json(v) is True and type(v) in (list, dict):
        return copy.deepcopy(v)
    return v


class _IsToSame(ast.NodeTransformer):
    def visit_Call(self, node):
        self.generic_visit(node)
        if isinstance(node.func, ast.Name) and node.func.id == "implies" and len(node.args) == 2 and not node.keywords:
            # implies(a, b) is lazy in its consequent, like the logical connective it stands for
            return ast.BoolOp(op=ast.Or(), values=[ast.UnaryOp(op=ast.Not(), operand=node.args[0]), node.args[1]])
        return node

    def visit_Compare(self, node):
        self.generic_visit(node)
        if len(node.ops) == 1 and isinstance(node.ops[0], (ast.Is, ast.IsNot)):
            call = ast.Call(func=ast.Name(id="same", ctx=ast.Load()), args=[node.left, node.comparators[0]], keywords=[])
            if isinstance(node.ops[0], ast.IsNot):
                return ast.UnaryOp(op=ast.Not(), operand=call)
            return call
        return node


_cache = {}


def compile_clause(src):
    if src not in _cache:
        tree = ast.parse(src, mode="eval")
        tree = ast.fix_missing_locations(_IsToSame().visit(tree))
        _cache[src] = compile(tree, f"<contract: {src[:40]}>", "eval")
    return _cache[src]


def ev(src, env):
    from pyvc.contracts import MACROS
    for name, (params, msrc) in MACROS.items():
        if name not in env:
            code = compile_clause(msrc)
            env[name] = (lambda code, params: (lambda *a: eval(code, {**env, **dict(zip(params, a))})))(code, params)
    return eval(compile_clause(src), env)


# ------------------------------------------------------------------ observable snapshots

def full_state(x):
    """Like obs, but including private attributes: for frame checks "modifies nothing" means nothing at all."""
    return obs(x, private=True)


def obs(x, depth=0, seen=None, private=False):
    """Deep structural snapshot of everything observable about a value / element / class."""
    if private:
        return _obs_private(x, 0, ())
    return _obs(x, depth, seen)


def _obs_private(x, depth, seen):
    from statham.schema.elements import Element
    from statham.schema.elements.meta import ObjectMeta
    if isinstance(x, Element) and not isinstance(x, ObjectMeta) and depth <= 12 and id(x) not in seen:
        d = {k: _obs_private(v, depth + 1, seen + (id(x),)) for k, v in vars(x).items()}
        return (type(x).__name__, tuple(sorted(d.items(), key=lambda kv: kv[0])))
    if isinstance(x, ObjectMeta) and depth <= 12 and id(x) not in seen:
        d = {k: _obs_private(v, depth + 1, seen + (id(x),)) for k, v in vars(x).items()
             if not callable(v) and k not in ("__doc__", "__module__", "__dict__", "__weakref__", "__qualname__", "__annotations__")}
        return ("class", x.__name__, tuple(sorted(d.items(), key=lambda kv: kv[0])))
    if isinstance(x, dict) and depth <= 12:
        return (type(x).__name__, tuple((k, _obs_private(v, depth + 1, seen)) for k, v in x.items()),
                tuple(sorted((k, _obs_private(v, depth + 1, seen)) for k, v in getattr(x, "__dict__", {}).items() if k != "_parent")))
    if isinstance(x, (list, tuple)) and depth <= 12:
        return (type(x).__name__, tuple(_obs_private(v, depth + 1, seen) for v in x))
    return _obs(x, depth, seen)


def _obs(x, depth=0, seen=None):
    from statham.schema.constants import NotPassed
    from statham.schema.elements import Element
    from statham.schema.elements.meta import ObjectMeta
    from statham.schema.property import _Property
    from statham.schema.validation.base import Validator
    seen = seen or ()
    if depth > 12 or id(x) in seen:
        return ("<cycle>", type(x).__name__)
    if x is None or isinstance(x, (bool, int, float, str)):
        return (type(x).__name__, x if x == x else "nan")
    if isinstance(x, NotPassed):
        return "NotPassed"
    seen2 = seen + (id(x),)
    if isinstance(type(x), ObjectMeta):
        return ("instance", type(x).__name__, obs(getattr(x, "_dict", None), depth + 1, seen2))
    if isinstance(x, ObjectMeta):
        d = {k: obs(v, depth + 1, seen2) for k, v in vars(x).items()
             if (not k.startswith("_") or k == "_properties") and not callable(v) and k not in ("__doc__",)}
        return ("class", x.__name__, tuple(b.__name__ for b in x.__mro__[1:]), tuple(sorted(d.items(), key=lambda kv: kv[0])))
    if isinstance(x, dict):
        return (type(x).__name__, tuple((k, obs(v, depth + 1, seen2)) for k, v in x.items()))
    if isinstance(x, (list, tuple)):
        return (type(x).__name__, tuple(obs(v, depth + 1, seen2) for v in x))
    if isinstance(x, (set, frozenset)):
        return ("set", tuple(sorted((obs(v, depth + 1, seen2) for v in x), key=repr)))
    if isinstance(x, _Property):
        return ("Property", obs(x.element, depth + 1, seen2), x.required, x.source, x.name)
    if isinstance(x, Element):
        d = {k: obs(v, depth + 1, seen2) for k, v in vars(x).items() if not k.startswith("_") or k == "_properties"}
        return (type(x).__name__, tuple(sorted(d.items(), key=lambda kv: kv[0])))
    if isinstance(x, Validator):
        return (type(x).__name__, obs(x.params, depth + 1, seen2))
    if isinstance(x, type):
        return ("type", x.__name__)
    if hasattr(x, "__dict__") and type(x).__module__.startswith("statham"):
        d = {k: obs(v, depth + 1, seen2) for k, v in vars(x).items() if k not in ("parent", "element") or True}
        return (type(x).__name__, tuple(sorted(d.items(), key=lambda kv: kv[0])))
    return ("opaque", type(x).__name__, id(x))


class Outcome:
    def __init__(self, kind, value=None, exc=None):
        self.kind = kind
        self.value = value
        self.exc = exc

    def __repr__(self):
        if self.kind == "return":
            return f"returned {self.value!r:.200}"
        return f"raised {type(self.exc).__name__}: {str(self.exc):.160}"


_REACH_LINES = {}


def _reach_tracer(contract, fn, env, arguments, bad):
    """Native twin of the `reach` ghost: when the traced function is about to execute a statement whose source starts with the
    marker, the clause is evaluated over the parameters' entry values and the current locals (same scoping as the engine)."""
    from pyvc.front import find_function
    key = (contract.key, contract.inst)
    if key not in _REACH_LINES:
        try:
            fi = find_function(contract.key)
            marks = {}
            for nd in ast.walk(fi.node):
                if isinstance(nd, ast.stmt):
                    try:
                        src = ast.unparse(nd)
                    except Exception:
                        continue
                    for pat, cond in contract.ghost["reach"]:
                        if src.startswith(pat):
                            marks.setdefault(nd.lineno, []).append((pat, cond))
            _REACH_LINES[key] = (fi.node.name, marks)
        except Exception:
            _REACH_LINES[key] = (None, {})
    fname, marks = _REACH_LINES[key]
    if not marks:
        return None
    try:
        code = getattr(inspect.unwrap(getattr(fn, "func", fn)), "__code__", None)        # functools.partial / @wraps wrappers
    except Exception:
        code = None
    entry = dict(arguments)

    def local(frame, event, arg):
        if event == "line" and frame.f_lineno in marks:
            scope = dict(env)
            scope.update({k: v for k, v in frame.f_locals.items() if k not in entry})
            scope.update(entry)
            for pat, cond in marks[frame.f_lineno]:
                try:
                    with warnings.catch_warnings():
                        warnings.simplefilter("ignore")
                        ok = ev(cond, scope)
                except Exception:
                    continue            # the clause cannot be evaluated here: no verdict
                if not ok:
                    bad.append((pat, cond, frame.f_lineno))
        return local

    armed = [True]

    def tracer(frame, event, arg):
        if event == "call" and frame.f_code is code and armed[0]:
            armed[0] = False            # the outermost activation only: recursive activations have other arguments
            return local
        return None
    return tracer


def check_call(contract, fn, args, kwargs=None, ns=None, exc_classes=None):
    """Run fn(*args) under its contract. Returns None (ok), 'skip' (requires false) or a dict describing
    the violated clause."""
    kwargs = kwargs or {}
    ns = ns or pyspec.namespace()
    try:
        bound = inspect.signature(fn).bind(*args, **kwargs)
    except TypeError:
        return "skip"
    bound.apply_defaults()
    env = dict(ns)
    env.update(getattr(fn, "__globals__", {}) if False else {})
    env.update(bound.arguments)
    pyspec._ROOTS = list(bound.arguments.values())
    # *args parameters appear as tuples under their name
    try:
        with warnings.catch_warnings():
            warnings.simplefilter("ignore")
            if not ev(contract.requires, env):
                return "skip"
    except Exception as e:          # a requires clause that cannot be evaluated on this input: not applicable
        return "skip"
    pre_conds = []
    with warnings.catch_warnings():
        warnings.simplefilter("ignore")
        for names, cond in contract.raises:
            pre_conds.append((names, cond, bool(ev(cond, env)), True))
        for names, cond in contract.may_raise:
            pre_conds.append((names, cond, bool(ev(cond, env)), False))
    post_code, old_exprs = split_old(contract.returns)
    olds = {}
    try:
        with warnings.catch_warnings():
            warnings.simplefilter("ignore")
            ev("True", env)     # installs the macros into env
            for name, code in old_exprs:
                olds[name] = snapshot(eval(code, env))
    except Exception:
        return "skip"
    before = {k: full_state(v) for k, v in bound.arguments.items()}
    reach_bad = []
    tracer = _reach_tracer(contract, fn, env, bound.arguments, reach_bad) if contract.ghost.get("reach") else None
    with warnings.catch_warnings(record=True) as wlist:
        warnings.simplefilter("always")
        try:
            if tracer is not None:
                import sys
                old_trace = sys.gettrace()
                sys.settrace(tracer)
                try:
                    rv = fn(*args, **kwargs)
                finally:
                    sys.settrace(old_trace)
            else:
                rv = fn(*args, **kwargs)
            if inspect.isgenerator(rv):
                rv = list(rv)        # generators have eager list semantics in the contracts
            out = Outcome("return", rv)
        except BaseException as e:  # noqa
            if isinstance(e, (KeyboardInterrupt, SystemExit)):
                raise
            out = Outcome("raise", exc=e)
    after = {k: full_state(v) for k, v in bound.arguments.items()}

    def viol(clause, detail):
        return {"contract": contract.name, "clause": clause, "detail": detail, "outcome": repr(out),
                "args": {k: repr(v)[:300] for k, v in bound.arguments.items()}}

    if reach_bad:
        pat, cond, line = reach_bad[0]
        return viol("reach", f"at `{pat}...` (line {line}) the clause `{cond}` is false")
    for k in before:
        root_ok = any(m == k or m.startswith(k + ".") or m.startswith(k + "[") for m in contract.modifies)
        if before[k] != after[k] and not root_ok:
            return viol("frame", f"argument `{k}` was modified (modifies = {contract.modifies}): {str(before[k])[:200]} -> {str(after[k])[:200]}")
    if out.kind == "raise":
        e = out.exc
        ok = False
        for names, cond, val, iff in pre_conds:
            if any(type(e).__name__ == n or n in [c.__name__ for c in type(e).__mro__] for n in names):
                if val:
                    ok = True
        if not ok:
            return viol("raises", f"raised {type(e).__name__} but no raises-clause allows it here: "
                        + "; ".join(f"{'/'.join(n)} iff {c} [{v}]" for n, c, v, _ in pre_conds))
    else:
        for names, cond, val, iff in pre_conds:
            if iff and val:
                return viol("raises", f"returned although `{cond}` holds (must raise {'/'.join(names)})")
        env2 = dict(env)
        env2["result"] = out.value
        with warnings.catch_warnings():
            warnings.simplefilter("ignore")
            try:
                env2.update(olds)
                good = eval(post_code, env2)
            except Exception as e:
                return "skip"       # the monitor cannot evaluate the clause on this input: no verdict
        if not good:
            return viol("returns", f"ensures `{contract.returns}` is false")
        if contract.ghost.get("result_fresh") or contract.ghost.get("result_fresh_unless"):
            # freshness, natively: the result is none of the arguments and a second call does not hand out the same object
            unless = contract.ghost.get("result_fresh_unless")
            exempt = False
            if unless:
                try:
                    exempt = bool(ev(unless, env2))
                except Exception:
                    exempt = True
            rv = out.value
            if not exempt and rv is not None and not isinstance(rv, (bool, int, float, str, type)) and not pyspec.is_np(rv):
                if any(rv is a for a in bound.arguments.values()):
                    return viol("fresh", "the result is one of the arguments (ghost result_fresh: must be a new object)")
                try:
                    with warnings.catch_warnings():
                        warnings.simplefilter("ignore")
                        rv2 = fn(*args, **kwargs)
                    if inspect.isgenerator(rv2):
                        rv2 = list(rv2)
                except BaseException:
                    rv2 = None
                if rv2 is rv:
                    return viol("fresh", "two calls returned the very same object (ghost result_fresh: must be a new object each time)")
        if "warns" in contract.ghost:
            want = bool(ev(contract.ghost["warns"], env2))
            got = len([w for w in wlist if issubclass(w.category, RuntimeWarning)])
            if (got == 1) != want or got > 1:
                return viol("warns", f"{got} warning(s); exactly one expected iff {contract.ghost['warns']}")
    return None
