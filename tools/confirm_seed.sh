#!/bin/bash
# tools/confirm_seed.sh <seed-dir>   : confirm a seeded change independently in a scratch worktree:
#   patch applies to /repo HEAD, suite unchanged, demo fails with / passes without.  Prints a one-line verdict.
d="$1"; wt=/tmp/wt/confirm_$$
git -C /repo worktree add --detach "$wt" HEAD -q || exit 2
res=""
( cd "$wt" && STATHAM_PATH="$wt" PYTHONPATH="$wt" timeout 120 /venv/bin/python "$d/demo.py" >/dev/null 2>&1 ); base=$?
if ! git -C "$wt" apply "$d/patch.diff" 2>/dev/null; then res="PATCH-DOES-NOT-APPLY"; else
  t=$(cd "$wt" && PYTHONPATH="$wt" /venv/bin/python -m pytest -q -p no:cacheprovider --timeout=900 --continue-on-collection-errors 2>&1 | tail -1)
  ( cd "$wt" && STATHAM_PATH="$wt" PYTHONPATH="$wt" timeout 120 /venv/bin/python "$d/demo.py" >/dev/null 2>&1 ); mut=$?
  res="demo_base=$base demo_mut=$mut tests: $t"
fi
git -C /repo worktree remove --force "$wt"
echo "$d: $res"
