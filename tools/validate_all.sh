#!/bin/bash
# tools/validate_all.sh: full validation of the committed state from a snapshot (meant for `vp run`):
#   1. every quick check on the unchanged tree, 2. every thorough check, 3. the seeded-change matrix, 4. the selftest mutants.
# Logs under out/validate/ of the directory this script lives in; outputs of 2-4 are redirected so that evidence/ is untouched.
cd "$(dirname "$0")/.."; V="$(pwd)"; L="$V/out/validate"; mkdir -p "$L"
echo "== quick" > "$L/summary.log"
tools/regress.sh > "$L/quick.log" 2>&1; echo "quick rc=$?" >> "$L/summary.log"
echo "== thorough" >> "$L/summary.log"
for i in 11 12 15 16 18 02 19 17 05 06 03 20 07 09 04 13 14 10 08 01; do
  s=$(date +%s); out=$(VERIF_OUT="$L/thorough_out" ./check C$i --tier thorough 2>&1); rc=$?; e=$(date +%s)
  echo "C$i rc=$rc $((e-s))s | $(echo "$out" | tail -1 | cut -c1-200)" >> "$L/thorough.log"
  echo "$out" | grep -E "^VIOLATION|CHECKER|Traceback" | head -5 >> "$L/thorough.log"
done
echo "thorough done" >> "$L/summary.log"
tools/seed_matrix.sh > "$L/matrix.log" 2>&1; cp seeded/MATRIX.tsv "$L/MATRIX.tsv" 2>/dev/null; echo "matrix done" >> "$L/summary.log"
tools/selftest.sh > "$L/selftest.log" 2>&1; echo "selftest done" >> "$L/summary.log"
