#!/bin/bash
# tools/selftest.sh [id ...]: apply each hand-written mutant (selftest/mutants.py) to a scratch copy of /repo, run the quick check of
# its property restricted to the named contract (--only), and report whether the expected obligation is reported.
cd "$(dirname "$0")/.."
work=$(mktemp -d /tmp/selftest.XXXXXX)
trap 'rm -rf "$work"' EXIT
/venv/bin/python - "$work" "$@" <<'PY'
import os, subprocess, sys, shutil, json
sys.path.insert(0, os.getcwd())
from selftest.mutants import MUTANTS
work = sys.argv[1]
want = set(sys.argv[2:])
rows = []
for mid, prop, path, old, new, only, expect in MUTANTS:
    if want and mid not in want:
        continue
    tree = os.path.join(work, "tree"); out = os.path.join(work, "out")
    shutil.rmtree(tree, ignore_errors=True); shutil.rmtree(out, ignore_errors=True)
    os.makedirs(tree); os.makedirs(out)
    subprocess.run("git -C /repo archive HEAD | tar -x -C " + tree, shell=True, check=True)
    f = os.path.join(tree, path)
    src = open(f).read()
    olds, news = ([old], [new]) if isinstance(old, str) else (list(old), list(new))     # several edits of one file: lists
    if any(o_ not in src for o_ in olds):
        rows.append((mid, prop, "PATCH-FAIL", "")); print(mid, "PATCH-FAIL"); continue
    for o_, n_ in zip(olds, news):
        src = src.replace(o_, n_, 1)
    open(f, "w").write(src)
    env = dict(os.environ, STATHAM_REPO=tree, VERIF_OUT=out)
    r = subprocess.run(["./check", prop, "--tier", "quick", "--only", only], env=env, capture_output=True, text=True)
    lines = [l for l in r.stdout.splitlines()]
    hits = []
    for i, l in enumerate(lines):
        if l.startswith("VIOLATION") and i + 1 < len(lines) and expect in lines[i + 1]:
            hits.append(lines[i + 1].strip()[:110])
    tail = l.split(" no-failing-input-found")
    status = "caught" if hits else ("other-violation" if any(l.startswith("VIOLATION") for l in lines) else "MISSED")
    nf = sum(1 for i, l in enumerate(lines) if l.startswith("VIOLATION") and l.endswith("no-failing-input-found") and i + 1 < len(lines) and expect in lines[i + 1])
    print(f"{mid}\t{prop}\t{status}\trc={r.returncode}\twith-input={len(hits) - nf}\tno-failing-input-found={nf}\t{hits[0] if hits else lines[-1][:110] if lines else ''}")
PY
