#!/bin/bash
# tools/scratch_seed.sh <seed-id> : make /tmp/scratch_<id> = copy of /repo/statham with the seed applied; prints the path
id=$1; d=/tmp/scratch_$id; rm -rf $d; mkdir -p $d; cp -r /repo/statham $d/; (cd $d && patch -p1 -s < /verif/seeded/$id/patch.diff) || exit 1; echo $d
