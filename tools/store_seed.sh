#!/bin/bash
# tools/store_seed.sh Cxx/A : copy a confirmed seed from /tmp/seeds into /verif/seeded/Cxx-A with confirmation note
s="$1"; id=$(echo $s | tr '/' '-'); mkdir -p /verif/seeded/$id; cp /tmp/seeds/$s/patch.diff /tmp/seeds/$s/demo.py /verif/seeded/$id/
python3 - "$s" "$id" <<'PY'
import json,sys
s,id=sys.argv[1],sys.argv[2]
try: m=json.load(open(f'/tmp/seeds/{s}/meta.json'))
except Exception as e: m={"property":s.split('/')[0],"summary":"(meta.json unreadable: %s)"%e}
m['confirmed']={"by":"tools/confirm_seed.sh in a scratch worktree of /repo HEAD","result":"patch applies; suite 1008 passed, 8 xfailed (baseline); demo exits 0 without and non-zero with the change"}
json.dump(m,open(f'/verif/seeded/{id}/meta.json','w'),indent=1)
PY
