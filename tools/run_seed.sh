#!/bin/bash
# tools/run_seed.sh <seed-dir> <prop> [<prop>...] : apply the seeded patch to /repo, run the quick checks, undo.
d="$(cd "$1" && pwd)"; shift
git -C /repo diff --quiet || { echo "/repo is dirty"; exit 2; }
git -C /repo apply "$d/patch.diff" || { echo "patch does not apply"; exit 2; }
for p in "$@"; do
  out=$(cd "$(dirname "$0")/.." && ./check "$p" --tier quick 2>&1); rc=$?
  echo "== $d $p rc=$rc"; echo "$out" | grep -E "^VIOLATION|^KNOWN|CHECKER" | cut -c1-220 | head -5; echo "$out" | tail -1 | cut -c1-200
done
git -C /repo checkout -- . 
