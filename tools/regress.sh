#!/bin/bash
# tools/regress.sh : run every quick check on the unchanged tree; one line each; non-zero exit if any check alarms or errors
cd "$(dirname "$0")/.."; rc=0
for i in 01 02 03 04 05 06 07 08 09 10 11 12 13 14 15 16 17 18 19 20; do
  out=$(./check C$i --tier quick 2>&1); r=$?
  echo "$out" | tail -1 | cut -c1-210
  [ $r -ne 0 ] && { rc=1; echo "$out" | grep -E "^VIOLATION|CHECKER|Traceback" | head -5 | cut -c1-300; }
done
exit $rc
