#!/bin/bash
# tools/seed_matrix.sh [seed-id ...]: for each seeded change, copy /repo's package to a scratch directory outside /repo and
# /verif, apply the change there, run the quick check of its property (plus properties listed in seeded/<id>/also) against
# that copy (STATHAM_REPO) with outputs redirected (VERIF_OUT), and record which tier caught it.  /repo is never touched.
# Result lines go to stdout and to seeded/MATRIX.tsv.
cd "$(dirname "$0")/.."; V="$(pwd)"
ids="$@"; [ -z "$ids" ] && ids=$(ls seeded | grep -v MATRIX)
work=$(mktemp -d /tmp/seedrun.XXXXXX)
trap 'rm -rf "$work"' EXIT
for id in $ids; do
  prop=${id%%-*}
  also=$(cat seeded/$id/also 2>/dev/null)
  rm -rf "$work/tree" "$work/out"; mkdir -p "$work/tree" "$work/out"
  (cd /repo && git archive HEAD) | tar -x -C "$work/tree"
  (cd "$work/tree" && patch -s -p1 < "$V/seeded/$id/patch.diff") || { echo -e "$id\tPATCH-FAIL"; continue; }
  for p in $prop $also; do
    out=$(STATHAM_REPO="$work/tree" VERIF_OUT="$work/out" ./check $p --tier quick 2>&1); rc=$?
    ded=0; nat=0; bnd=0
    for f in "$work"/out/replays/$p/*.json; do
      [ -f "$f" ] || continue
      k=$(python3 - "$f" <<'PY'
import json,sys
d=json.load(open(sys.argv[1]))
if "obligation" in d:
    print("native" if d.get("witness") or "/native" in d.get("obligation","") else "deductive")
else:
    print("bounded")
PY
)
      case $k in deductive) ded=$((ded+1));; native) nat=$((nat+1));; *) bnd=$((bnd+1));; esac
    done
    first=$(echo "$out" | grep -A1 "^VIOLATION" | sed -n 2p | cut -c1-140 | tr '\t' ' ')
    echo -e "$id\t$p\trc=$rc\tobligation-failed=$ded\tobligation+native-witness=$nat\tbounded=$bnd\t$first"
    rm -rf "$work/out/replays"
  done
done | tee "${MATRIX_OUT:-seeded/MATRIX.tsv}"
