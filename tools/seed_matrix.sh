#!/bin/bash
# tools/seed_matrix.sh [seed-id ...]: apply each seeded change to /repo, run the quick check of its property
# (plus extra properties listed in seeded/<id>/also), undo; print one line per seed.
cd /verif
ids="$@"; [ -z "$ids" ] && ids=$(ls seeded)
for id in $ids; do
  prop=${id%%-*}
  also=$(cat seeded/$id/also 2>/dev/null)
  git -C /repo diff --quiet || { echo "/repo dirty"; exit 2; }
  git -C /repo apply /verif/seeded/$id/patch.diff 2>/dev/null || { echo "$id PATCH-FAIL"; continue; }
  line="$id:"
  for p in $prop $also; do
    out=$(./check $p --tier quick 2>&1); rc=$?
    nv=$(echo "$out" | grep -c "^VIOLATION")
    first=$(echo "$out" | grep -A1 "^VIOLATION" | sed -n 2p | cut -c1-110)
    line="$line [$p rc=$rc viol=$nv $first]"
  done
  git -C /repo checkout -- .
  echo "$line"
done
