"""Models of the builtins and library functions the verified code calls."""
import ast
import builtins
import inspect
import re as _re
import warnings as _warnings

from . import smt
from .terms import (And, Or, Not, Implies, Ite, Eq, asV, asB, asI, asS, mkB, mkI, mkS, TRUE, FALSE,
                    const_term, seq_of_terms, mseq)
from .values import (CondList, Val, PyC, PyList, SymObj, SDict, Closure, BM, Exc, OutOfSubset, fresh_name)
from .exprs import is_exc


class BuiltinMixin:
    def builtin_models(self):
        if getattr(self, "_bm", None) is None:
            import functools
            self._bm = {
                id(len): self.b_len, id(isinstance): self.b_isinstance, id(set): self.b_set,
                id(list): self.b_list, id(tuple): self.b_tuple, id(dict): self.b_dict,
                id(zip): self.b_zip, id(map): self.b_map, id(getattr): self.b_getattr,
                id(repr): self.b_repr, id(str): self.b_str, id(bool): self.b_bool,
                id(type): self.b_type, id(_re.search): self.b_re_search,
                id(_warnings.warn): self.b_warn, id(enumerate): self.b_enumerate,
                id(super): self.b_super, id(hasattr): self.b_hasattr, id(iter): self.b_iter,
                id(sorted): self.b_sorted, id(id): self.b_id, id(next): self.b_next,
                id(filter): self.b_filter, id(setattr): self.b_setattr,
                id(__import__("typing").cast): (lambda st, args, kwargs, node: [(st, args[1])]),
                id(object.__new__): self.b_object_new,
            }
            h = getattr(self, "extra_builtin_models", None)
            if h:
                self._bm.update(h())
        return self._bm

    def b_chain_from_iterable(self, st, args, kwargs, node):
        """itertools.chain.from_iterable(LL) over an (eagerly evaluated) list of lists: the concatenation `flat(LL)`, known through
        two library facts: membership (x is in the result iff it is in one of the parts) and the singleton case (if every part
        has exactly one member, the result has the parts' length and its j-th member is the member of the j-th part)."""
        x = args[0]
        if isinstance(x, PyList):
            parts = []
            for it in x.items:
                lv = self.lift(it)
                if lv.kind not in ("list", "tuple"):
                    raise OutOfSubset("chain.from_iterable over a non-list part", node)
                parts.append(f"(seqof {asV(lv)})")
            t = "(as seq.empty (Seq V))" if not parts else parts[0] if len(parts) == 1 else "(seq.++ " + " ".join(parts) + ")"
            return [(st, Val(f"(v_list {t})", kind="list", fresh=TRUE))]
        ll = self.lift(x)
        if ll.kind != "list":
            raise OutOfSubset("chain.from_iterable over a value that is not a list of lists", node)
        L = f"(lval {asV(ll)})"
        r = self.fresh_val("flat", kind="list")
        r.fresh = TRUE
        R = f"(lval {r.t})"
        j, q, xv = fresh_name("fj"), fresh_name("fq"), fresh_name("fx")
        part = lambda i: f"(seqof (seq.nth {L} {i}))"
        rng = lambda i: f"(and (<= 0 {i}) (< {i} (seq.len {L})))"
        st.assume(f"(k_list {r.t})")
        # every part is a list or tuple (obligation), then:
        self.obl("kind", node, st, f"(forall (({j} Int)) (=> {rng(j)} (or (k_list (seq.nth {L} {j})) (k_tuple (seq.nth {L} {j})))))",
                 detail="every part passed to chain.from_iterable is a list or tuple")
        src = self.declare_fun(fresh_name("fpart"), ["V"], "Int")
        st.assume(f"(forall (({xv} V)) (! (=> (ismem {mseq(R)} {xv}) (and (<= 0 ({src} {xv})) (< ({src} {xv}) (seq.len {L})) (ismem {mseq(part(f'({src} {xv})'))} {xv}))) :pattern ((ismem {mseq(R)} {xv}))))")
        st.assume(f"(forall (({j} Int) ({xv} V)) (! (=> (and {rng(j)} (ismem {mseq(part(j))} {xv})) (ismem {mseq(R)} {xv})) :pattern ((ismem {mseq(part(j))} {xv}))))")
        # (the premise "every part has one member" is stated through its Skolem counterexample jc: either part jc is not a
        # singleton, or the conclusion holds)
        jc = self.declare(fresh_name("fjc"), "Int")
        st.assume(f"(or (and {rng(jc)} (not (= (seq.len {part(jc)}) 1))) "
                  f"(and (= (seq.len {R}) (seq.len {L})) (forall (({q} Int)) (! (=> {rng(q)} (= (seq.nth {R} {q}) (seq.nth {part(q)} 0))) :pattern ((seq.nth {R} {q}))))))")
        self.trusted_used.add("itertools.chain.from_iterable over a list of lists is their concatenation: x is a member iff it is a member of a part; "
                              "if every part has one member the result is the list of those members (List.join lemmas)")
        return [(st, r)]

    def b_object_new(self, st, args, kwargs, node):
        """object.__new__(cls): a fresh object of class cls, no attributes of its own yet."""
        (c,) = args
        if isinstance(c, PyC) and isinstance(c.obj, type):
            return [(st, SymObj(c.obj))]
        lc = self.lift(c)
        if lc.kind != "cls":
            raise OutOfSubset("object.__new__ of a non-class value", node)
        n = self.declare(fresh_name("newobj"), "Int")
        st.assume(f"(and (>= {n} 1000000) (= (class_of {n}) (cid {asV(lc)})))", fact=True)
        for other in self.escaped:
            st.assume(f"(not (= {n} {other}))", fact=True)
        self.escaped.append(n)
        return [(st, Val(f"(v_obj {n})", kind="obj", fresh=TRUE))]

    # ---- simple ones
    def b_len(self, st, args, kwargs, node):
        (x,) = args
        if isinstance(x, SDict):
            x = self.lift(x)
        if isinstance(x, PyList):
            return [(st, PyC(len(x.items)))]
        if isinstance(x, PyC):
            return [(st, PyC(len(x.obj)))]
        if isinstance(x, dict):
            return [(st, PyC(len(x)))]
        if isinstance(x, SymObj):
            x = self.lift(x)
        if x.sort == "S":
            return [(st, mkI(f"(str.len {x.t})"))]
        if x.kind in ("list", "tuple", "dict", "set", "str"):
            return [(st, mkI(f"(py_len {asV(x)})"))]
        if x.kind == "obj" or x.cls is not None:
            return [(st, mkI(f"(obj_dictlen {asV(x)})"))] if x.cls is not None and issubclass(x.cls, dict) else self._oos("len of object", node)
        return self.raising(st, mkI(f"(py_len {asV(x)})"), [(TypeError, f"(len_exc {asV(x)})")], node)

    def _oos(self, msg, node):
        raise OutOfSubset(msg, node)

    def b_isinstance(self, st, args, kwargs, node):
        x, c = args
        if isinstance(x, PyC) and isinstance(c, PyC):
            return [(st, PyC(isinstance(x.obj, c.obj)))]
        if isinstance(x, SymObj) and isinstance(c, PyC):
            cl = c.obj
            return [(st, PyC(issubclass(x.cls, cl)))]
        if isinstance(x, (Closure, BM)):
            return [(st, PyC(False))]
        if isinstance(x, Exc):
            if isinstance(c, PyC):
                return [(st, PyC(issubclass(x.etype, c.obj)))]
        lx = self.lift(x)
        from .terms import isinstance_any_term
        classes = None
        if isinstance(c, PyC) and isinstance(c.obj, type):
            classes = [c.obj]
        elif isinstance(c, PyC) and isinstance(c.obj, tuple) and all(isinstance(k, type) for k in c.obj):
            classes = list(c.obj)
        elif isinstance(c, PyList) and all(isinstance(k, PyC) and isinstance(k.obj, type) for k in c.items):
            classes = [k.obj for k in c.items]
        if classes is not None:
            exact = self.exact_class.get(lx.t) if lx.sort == "V" else None
            if exact is not None:
                return [(st, PyC(any(issubclass(exact, k) for k in classes)))]
            return [(st, mkB(isinstance_any_term(asV(lx), classes, self.ctab)))]
        lc = self.lift(c)
        return [(st, mkB(f"(py_isinstance {asV(lx)} {asV(lc)})"))]

    def b_bool(self, st, args, kwargs, node):
        return [(st, mkB(self.truth(args[0])))]

    def b_repr(self, st, args, kwargs, node):
        return [(st, mkS(self.str_image(args[0], repr_=True)))]

    def b_str(self, st, args, kwargs, node):
        return [(st, mkS(self.str_image(args[0])))]

    def b_id(self, st, args, kwargs, node):
        self.notes.append(f"id() used at L{node.lineno}")
        self.uses_id = True
        f = self.declare_fun("py_id", ["V"], "Int")
        self.trusted_used.add("id(x) is an injective-on-live-objects integer py_id(x) (never an output; only membership tests)")
        return [(st, mkI(f"({f} {asV(self.lift(args[0]))})"))]

    def b_type(self, st, args, kwargs, node):
        if len(args) != 1:
            raise OutOfSubset("type() with 3 arguments", node)
        x = args[0]
        if isinstance(x, SymObj):
            return [(st, PyC(x.cls))]
        if isinstance(x, PyC):
            return [(st, PyC(type(x.obj)))]
        if isinstance(x, Val) and x.cls is not None and self.exact_class.get(x.t) is not None:
            return [(st, PyC(self.exact_class[x.t]))]
        lx = self.lift(x)
        return [(st, Val(f"(v_cls (type_of {asV(lx)}))", kind="cls"))]

    def b_getattr(self, st, args, kwargs, node):
        obj, name = args[0], args[1]
        if not (isinstance(name, PyC) and isinstance(name.obj, str)):
            raise OutOfSubset("getattr with symbolic name", node)
        if len(args) == 2:
            return self.getattr(st, obj, name.obj, node)
        default = args[2]
        self.catch_stack.append((AttributeError,))
        try:
            res = self.getattr(st, obj, name.obj, node)
        finally:
            self.catch_stack.pop()
        out = []
        for s, v in res:
            if is_exc(v) and issubclass(v.etype, AttributeError):
                out.append((s, default))
            else:
                out.append((s, v))
        # merge the two paths of an SMT-level attribute into one ite (keeps path count down)
        if len(out) == 2 and not is_exc(out[0][1]) and not is_exc(out[1][1]):
            (s1, v1), (s2, v2) = out
            if len(s1.pc) == len(s2.pc) and s1.pc[:-1] == s2.pc[:-1] and s1.pc and s2.pc \
                    and (s1.pc[-1] == Not(s2.pc[-1]) or s2.pc[-1] == Not(s1.pc[-1])):
                try:
                    a, b = self.lift(v1), self.lift(v2)
                    base = s1.fork()
                    base.pc = s1.pc[:-1]
                    c = s1.pc[-1]
                    kind = a.kind if a.kind == b.kind else None
                    return [(base, Val(Ite(c, asV(a), asV(b)), kind=kind, cls=a.cls if a.cls is b.cls else None,
                                       fresh=Ite(c, a.fresh, b.fresh), origin=b.origin or a.origin))]
                except OutOfSubset:
                    pass
        return out

    def b_hasattr(self, st, args, kwargs, node):
        obj, name = args
        self.catch_stack.append((AttributeError,))
        try:
            res = self.getattr(st, obj, name.obj, node)
        finally:
            self.catch_stack.pop()
        return [(s, PyC(False) if is_exc(v) and issubclass(v.etype, AttributeError) else (v if is_exc(v) else PyC(True)))
                for s, v in res]

    def b_setattr(self, st, args, kwargs, node):
        obj, name, v = args
        if not (isinstance(name, PyC) and isinstance(name.obj, str)):
            lname = self.lift(name)
            h = getattr(self, "setattr_symbolic_hook", None)
            if h:
                return h(st, obj, lname, v, node)
            raise OutOfSubset("setattr with symbolic name", node)
        return [(s, sig[1] if sig else PyC(None)) for s, sig in self.setattr(st, obj, name.obj, v, node)]

    def b_re_search(self, st, args, kwargs, node):
        p, s = self.lift(args[0]), self.lift(args[1])
        self.trusted_used.add("re.search(p, s) is an uninterpreted total predicate re_search(p, s) (terminates, raises nothing on a valid pattern and a str)")
        exc = Or(Not(f"(k_str {asV(p)})") if p.sort == "V" and p.kind != "str" else FALSE,
                 Not(f"(k_str {asV(s)})") if s.sort == "V" and s.kind != "str" else FALSE)
        val = mkB(f"(re_search {asS(p)} {asS(s)})")
        return self.raising(st, val, [(TypeError, exc)], node)

    def b_warn(self, st, args, kwargs, node):
        cat = args[1] if len(args) > 1 else kwargs.get("category")
        st.ghost = {**st.ghost, "warns": st.ghost.get("warns", 0) + 1,
                    "warn_cat": cat.obj if isinstance(cat, PyC) else None}
        self.trusted_used.add("warnings.warn issues exactly one warning and returns (default filters)")
        return [(st, PyC(None))]

    def b_super(self, st, args, kwargs, node):
        if args:
            raise OutOfSubset("super() with arguments", node)
        selfv = st.env.get("self", st.env.get("cls", st.env.get("mcs")))
        return [(st, ("super", selfv, self.cur_defcls))] if False else [(st, SuperProxy(selfv, self.cur_defcls))]

    # ---- containers
    def b_list(self, st, args, kwargs, node):
        if not args:
            return [(st, PyList([], "list"))]
        x = args[0]
        if isinstance(x, PyList):
            return [(st, PyList(x.items, "list"))]
        if isinstance(x, PyC) and isinstance(x.obj, (tuple, list)):
            return [(st, PyList([PyC(i) for i in x.obj], "list"))]
        if isinstance(x, PyC) and type(x.obj).__name__ in ("odict_values", "dict_values", "mappingproxy"):
            return [(st, PyList([PyC(i) for i in list(x.obj)], "list"))]
        lx = self.lift(x)
        if lx.kind == "list":
            return [(st, Val(asV(lx), kind="list", fresh=TRUE))]      # a copy: same value, fresh identity
        if lx.kind in ("list", "tuple", "set"):
            return [(st, Val(f"(v_list (seqof {asV(lx)}))", kind="list", fresh=TRUE))]
        if lx.kind in ("dict_values",):
            sq = f"(ditems {asV(lx)})"
            r = self.fresh_val("vals", kind="list")
            r.fresh = TRUE
            q = fresh_name("q")
            st.assume(f"(and (k_list {r.t}) (= (seq.len (lval {r.t})) (seq.len {sq})))")
            st.assume(f"(forall (({q} Int)) (! (=> (and (<= 0 {q}) (< {q} (seq.len {sq}))) (= (seq.nth (lval {r.t}) {q}) (pval (seq.nth {sq} {q})))) :pattern ((seq.nth (lval {r.t}) {q}))))")
            return [(st, r)]
        if lx.kind == "dict":
            raise OutOfSubset("list(dict)", node)
        if lx.kind is None and lx.sort == "V":
            # statically unknown kind: must be a list/tuple here (obligation), then a fresh copy
            g = f"(or (k_list {lx.t}) (k_tuple {lx.t}))"
            self.obl("kind", node, st, g, detail="argument of list() is a list or tuple")
            st.assume(g)
            return [(st, Val(f"(v_list (seqof {lx.t}))", kind="list", fresh=TRUE))]
        raise OutOfSubset(f"list() of {lx.kind}", node)

    def b_tuple(self, st, args, kwargs, node):
        if not args:
            return [(st, PyList([], "tuple"))]
        x = args[0]
        if isinstance(x, PyList):
            return [(st, PyList(x.items, "tuple"))]
        lx = self.lift(x)
        if lx.kind in ("list", "tuple"):
            return [(st, Val(f"(v_tuple (seqof {asV(lx)}))", kind="tuple", fresh=TRUE))]
        raise OutOfSubset(f"tuple() of {lx.kind}", node)

    def b_set(self, st, args, kwargs, node):
        if not args:
            return [(st, PyList([], "set"))]
        x = args[0]
        if isinstance(x, PyC) and isinstance(x.obj, (tuple, list, set, frozenset)):
            try:
                return [(st, PyC(set(x.obj)))]
            except TypeError:
                pass
        lx = self.lift(x)
        if lx.cls is not None and lx.cls.__module__.startswith("statham") and hasattr(lx.cls, "__iter__"):
            r = self.fresh_val("setofobj", kind="set")
            r.fresh = TRUE
            st.assume(f"(k_set {r.t})")
            self.trusted_used.add(f"iterating a {lx.cls.__name__} object inside set() raises nothing and has no effect; the resulting set is unconstrained")
            return [(st, r)]
        if lx.kind == "dict":
            # set(d) = set of keys
            sq = f"(ditems {asV(lx)})"
            r = self.fresh_val("keyset", kind="set")
            r.fresh = TRUE
            y = fresh_name("y")
            st.assume(f"(k_set {r.t})")
            st.assume(f"(= (seq.len (sitems {r.t})) (seq.len {sq}))")
            st.assume(f"(forall (({y} V)) (! (= (seq_has_pyeq (sitems {r.t}) {y} 0) (and (k_str {y}) (dhas {asV(lx)} (sval {y})))) :pattern ((seq_has_pyeq (sitems {r.t}) {y} 0))))")
            self.trusted_used.add("set(dict) has the dict's keys as members (library axiom)")
            self.set_src[r.t] = lx
            return [(st, r)]
        if lx.kind is None and lx.sort == "V":
            # statically unknown: case split on "is a dict" (set of keys) versus a sequence
            out = []
            sd, sl = self.branch(st, f"(k_dict {lx.t})")
            if sd is not None:
                out.extend(self.b_set(sd, [Val(lx.t, kind="dict", fresh=lx.fresh, origin=lx.origin)], kwargs, node))
            if sl is not None:
                g = f"(or (k_list {lx.t}) (k_tuple {lx.t}) (k_set {lx.t}))"
                self.obl("kind", node, sl, g, detail="argument of set() is a list, tuple, set or dict")
                sl.assume(g)
                out.extend(self.b_set(sl, [Val(f"(v_list (seqof {lx.t}))", kind="list")], kwargs, node))
            return out
        if lx.kind not in ("list", "tuple", "set"):
            raise OutOfSubset(f"set() of {lx.kind}", node)
        sq = f"(seqof {asV(lx)})"
        r = self.fresh_val("set", kind="set")
        r.fresh = TRUE
        y = fresh_name("y")
        st.assume(f"(k_set {r.t})")
        st.assume(f"(<= (seq.len (sitems {r.t})) (seq.len {sq}))")
        st.assume(Eq(f"(= (seq.len (sitems {r.t})) (seq.len {sq}))", Not(f"(has_dup_py {sq} 0)")))
        st.assume(f"(forall (({y} V)) (! (= (seq_has_pyeq (sitems {r.t}) {y} 0) (seq_has_pyeq {sq} {y} 0)) :pattern ((seq_has_pyeq (sitems {r.t}) {y} 0))))")
        st.assume(Eq(f"(= (seq.len (sitems {r.t})) 0)", f"(= (seq.len {sq}) 0)"))
        self.trusted_used.add("set(xs): same members up to ==; len(set xs) = len xs iff xs has no two == elements; TypeError iff an element is a list/dict/set (library axiom)")
        self.set_src[r.t] = lx
        u = fresh_name("u")
        unh = f"(exists (({u} Int)) (and (<= 0 {u}) (< {u} (seq.len {sq})) (or (k_list (seq.nth {sq} {u})) (k_dict (seq.nth {sq} {u})) (k_set (seq.nth {sq} {u})))))"
        return self.raising(st, r, [(TypeError, unh)], node)

    def b_dict(self, st, args, kwargs, node):
        if not args and not kwargs:
            return [(st, SDict({}))]
        if not args:
            items = [f"(v_pair {smt.sstr(k)} {asV(self.lift(v))})" for k, v in kwargs.items()]
            return [(st, Val(f"(v_dict {seq_of_terms(items)})", kind="dict", fresh=TRUE))]
        x = args[0]
        if isinstance(x, PyList) and all(isinstance(i, PyList) and len(i.items) == 2 and isinstance(i.items[0], PyC) and isinstance(i.items[0].obj, str) for i in x.items):
            return [(st, SDict({i.items[0].obj: (TRUE, i.items[1]) for i in x.items}))]
        if isinstance(x, PyList) and all(isinstance(i, PyList) and len(i.items) == 2 for i in x.items):
            pairs = []
            for i in x.items:
                k, v = i.items
                pairs.append(PyList([k, v], "tuple"))
            return [(st, self.dict_from_pairs(st, pairs, node))]
        if isinstance(x, dict):
            return [(st, dict(x))]
        lx = self.lift(x)
        if lx.kind == "dict":
            return [(st, Val(asV(lx), kind="dict", fresh=TRUE))]
        raise OutOfSubset("dict() of non-static pairs", node)

    def b_zip(self, st, args, kwargs, node):
        lists = []
        for a in args:
            items = self.static_items(a)
            if items is None:
                raise OutOfSubset("zip of symbolic sequences", node)
            lists.append(items)
        return [(st, PyList([PyList(list(t), "tuple") for t in zip(*lists)], "list"))]

    def b_enumerate(self, st, args, kwargs, node):
        x = args[0]
        items = self.static_items(x)
        if items is not None:
            return [(st, PyList([PyList([PyC(i), v], "tuple") for i, v in enumerate(items)], "list"))]
        lx = self.lift(x)
        if lx.kind in ("list", "tuple"):
            return [(st, Val(asV(lx), kind="enumerate"))]
        raise OutOfSubset("enumerate of unknown kind", node)

    def b_iter(self, st, args, kwargs, node):
        return [(st, args[0])]

    def b_sorted(self, st, args, kwargs, node):
        x = args[0]
        if isinstance(x, PyC):
            return [(st, PyC(sorted(x.obj)))]
        lx = self.lift(x)
        r = self.fresh_val("sorted", kind="list")
        r.fresh = TRUE
        y = fresh_name("y")
        sq = f"(seqof {asV(lx)})"
        st.assume(f"(and (k_list {r.t}) (= (seq.len (lval {r.t})) (seq.len {sq})))")
        st.assume(f"(forall (({y} V)) (! (= (seq_has_pyeq (lval {r.t}) {y} 0) (seq_has_pyeq {sq} {y} 0)) :pattern ((seq_has_pyeq (lval {r.t}) {y} 0))))")
        self.trusted_used.add("sorted(xs) is a permutation of xs determined by the multiset of xs (library axiom)")
        return [(st, r)]

    def b_map(self, st, args, kwargs, node):
        f, xs = args[0], args[1]
        if len(args) != 2:
            raise OutOfSubset("map with several iterables", node)
        items = self.static_items(xs)
        if items is not None:
            paths = [(st, [])]
            for it in items:
                nxt = []
                for s, acc in paths:
                    if is_exc(acc):
                        nxt.append((s, acc))
                        continue
                    for s2, v in self.call(s, f, [it], {}, node):
                        nxt.append((s2, v if is_exc(v) else acc + [v]))
                paths = nxt
            return [(s, acc if is_exc(acc) else PyList(acc, "list")) for s, acc in paths]
        # a functional contract that distributes over lists (e.g. rbd): map(f, xs) is f(xs) as a list
        if isinstance(f, PyC) and inspect.isfunction(f.obj):
            from .front import key_of_function
            from .contracts import lookup, SpecEval
            c = lookup(key_of_function(f.obj))
            lx = self.lift(xs)
            if c is not None and c.ghost.get("map_function") and lx.kind == "list":
                fn = c.ghost["map_function"]
                self.called_contracts.add(c.name)
                q = fresh_name("mq")
                from .front import find_function
                fi = find_function(c.key)
                pname = fi.node.args.args[0].arg
                sp = SpecEval(self, {pname: Val(f"(seq.nth (lval {asV(lx)}) {q})")}, glob=fi.glob)
                pre = sp.compile_bool(c.requires)
                self.obl("pre", node, st, f"(forall (({q} Int)) (=> (and (<= 0 {q}) (< {q} (seq.len (lval {asV(lx)})))) {pre}))",
                         detail=f"requires of {c.name} for every element of the mapped list")
                return [(st, Val(f"({fn} {asV(lx)})", kind="list", fresh=TRUE))]
        # symbolic: synthesise the comprehension [f(x) for x in xs]
        fname = fresh_name("mapf")
        xname = fresh_name("mapx")
        comp = ast.ListComp(
            elt=ast.Call(func=ast.Name(id=fname, ctx=ast.Load()), args=[ast.Name(id="__mx", ctx=ast.Load())], keywords=[]),
            generators=[ast.comprehension(target=ast.Name(id="__mx", ctx=ast.Store()), iter=ast.Name(id=xname, ctx=ast.Load()), ifs=[], is_async=0)])
        ast.copy_location(comp, node)
        ast.fix_missing_locations(comp)
        s = st.fork()
        s.env = {**s.env, fname: f, xname: xs}
        res = self.comprehension(s, comp, "list")
        out = []
        for s2, v in res:
            s2.env = {k: w for k, w in s2.env.items() if k not in (fname, xname, "__mx")}
            out.append((s2, v))
        return out

    def b_filter(self, st, args, kwargs, node):
        f, xs = args
        fname, xname = fresh_name("filf"), fresh_name("filx")
        test = ast.Name(id="__fx", ctx=ast.Load()) if (isinstance(f, PyC) and f.obj is None) else \
            ast.Call(func=ast.Name(id=fname, ctx=ast.Load()), args=[ast.Name(id="__fx", ctx=ast.Load())], keywords=[])
        comp = ast.ListComp(elt=ast.Name(id="__fx", ctx=ast.Load()),
                            generators=[ast.comprehension(target=ast.Name(id="__fx", ctx=ast.Store()),
                                                          iter=ast.Name(id=xname, ctx=ast.Load()), ifs=[test], is_async=0)])
        ast.copy_location(comp, node)
        ast.fix_missing_locations(comp)
        s = st.fork()
        s.env = {**s.env, fname: f, xname: xs}
        res = self.comprehension(s, comp, "list")
        out = []
        for s2, v in res:
            s2.env = {k: w for k, w in s2.env.items() if k not in (fname, xname, "__fx")}
            out.append((s2, v))
        return out

    def b_next(self, st, args, kwargs, node):
        it = args[0]
        items = self.static_items(it)
        if items is not None:
            if items:
                return [(st, items[0])]
            if len(args) > 1:
                return [(st, args[1])]
            return self.raising(st, None, [(StopIteration, TRUE)], node)[:-1]
        lx = self.lift(it)
        if lx.kind not in ("list", "tuple"):
            raise OutOfSubset("next() of unknown iterable", node)
        sq = f"(seqof {asV(lx)})"
        empty = f"(= (seq.len {sq}) 0)"
        first = Val(f"(seq.nth {sq} 0)")
        if len(args) > 1:
            d = self.lift(args[1])
            return [(st, Val(Ite(empty, asV(d), asV(first))))]
        return self.raising(st, first, [(StopIteration, empty)], node)

    # ---- methods of builtin containers / strings
    def builtin_method(self, st, recv, name, args, kwargs, node):
        if isinstance(recv, SuperProxy):
            raise OutOfSubset("super proxy call", node)
        if isinstance(recv, PyC) and isinstance(recv.obj, str) and all(isinstance(a, PyC) for a in args) and name != "format" and name != "join":
            return [(st, PyC(getattr(recv.obj, name)(*[a.obj for a in args])))]
        if name == "format" and isinstance(recv, PyC) and isinstance(recv.obj, str):
            return self.str_format(st, recv.obj, args, kwargs, node)
        if name == "join":
            items = self.static_items(args[0]) if args else None
            if isinstance(recv, PyC) and isinstance(recv.obj, str) and items is not None and all(isinstance(i, PyC) and isinstance(i.obj, str) for i in items):
                return [(st, PyC(recv.obj.join(i.obj for i in items)))]
            r = self.fresh_val("join", sort="S")
            return [(st, r)]
        if isinstance(recv, SDict) and recv.term is None and name == "get" and isinstance(args[0], PyC) and isinstance(args[0].obj, str):
            dflt = args[1] if len(args) > 1 else PyC(None)
            if args[0].obj not in recv.entries:
                return [(st, dflt)]
            cnd, val = recv.entries[args[0].obj]
            if cnd == TRUE:
                return [(st, val)]
            return [(st, Val(Ite(cnd, asV(self.lift(val)), asV(self.lift(dflt)))))]
        if isinstance(recv, SDict):
            recv = self.lift(recv)
        if isinstance(recv, dict):
            if name == "get":
                k = args[0].obj
                return [(st, recv.get(k, args[1] if len(args) > 1 else PyC(None)))]
            if name == "pop":
                k = args[0].obj
                if k in recv:
                    return [(st, recv.pop(k))]
                return [(st, args[1])]
            if name == "items":
                return [(st, PyList([PyList([PyC(k), v], "tuple") for k, v in recv.items()], "list"))]
        if name == "add" and isinstance(node, ast.Call) and isinstance(node.func, ast.Attribute) and \
                ((isinstance(recv, Val) and recv.kind == "set") or (isinstance(recv, PyList) and recv.kind == "set")):
            lr = self.lift(recv)
            target = node.func.value
            self.frame_write(st, lr, lr.origin or ast.unparse(target), node)
            x = asV(self.lift(args[0]))
            r = self.fresh_val("setadd", kind="set")
            r.fresh, r.origin = lr.fresh, lr.origin
            y = fresh_name("y")
            st.assume(f"(k_set {r.t})", fact=True)
            st.assume(f"(forall (({y} V)) (! (= (seq_has_pyeq (sitems {r.t}) {y} 0) (or (seq_has_pyeq (sitems {asV(lr)}) {y} 0) (py_eq {y} {x}))) :pattern ((seq_has_pyeq (sitems {r.t}) {y} 0))))", fact=True)
            self.trusted_used.add("set.add: membership of the new set = old membership or == the added element (library axiom)")
            res = self.store_back(st, target, r, node)
            return [(s_, r_[1] if r_ else PyC(None)) for s_, r_ in res]
        if name == "remove" and isinstance(recv, PyList) and recv.kind == "list" and isinstance(node, ast.Call) and isinstance(node.func, ast.Attribute) \
                and all(isinstance(i, PyC) for i in recv.items) and isinstance(args[0], PyC):
            # list.remove of a constant from a list of constants: decided here (first == occurrence; ValueError if none)
            items = list(recv.items)
            for j, it in enumerate(items):
                try:
                    hit = (it.obj == args[0].obj) is True
                except Exception:
                    hit = False
                if hit:
                    del items[j]
                    res = self.store_back(st, node.func.value, PyList(items, "list"), node)
                    return [(s_, r_[1] if r_ else PyC(None)) for s_, r_ in res]
            return self.raising(st, None, [(ValueError, TRUE)], node)[:-1]
        if name in ("append", "extend", "insert") and (isinstance(recv, PyList) or (isinstance(recv, Val) and recv.kind == "list")) \
                and isinstance(node, ast.Call) and isinstance(node.func, ast.Attribute):
            # list mutators: a pure update of the value plus a write-back to the place the list was read from
            target = node.func.value
            if isinstance(recv, PyList) and recv.kind == "list":
                if name == "append":
                    new = PyList(recv.items + [args[0]], "list")
                elif name == "insert" and isinstance(args[0], PyC) and isinstance(args[0].obj, int):
                    items = list(recv.items)
                    items.insert(args[0].obj, args[1])
                    new = PyList(items, "list")
                else:
                    ext = self.static_items(args[0]) if name == "extend" else None
                    if ext is None:
                        lr = self.lift(recv)
                        return self.builtin_method(st, lr, name, args, kwargs, node)
                    new = PyList(recv.items + ext, "list")
                res = self.store_back(st, target, new, node)
                return [(s_, r_[1] if r_ else PyC(None)) for s_, r_ in res]
            lr = self.lift(recv)
            self.frame_write(st, lr, lr.origin or ast.unparse(target), node)
            sq = f"(lval {asV(lr)})"
            if name == "append":
                nt = f"(v_list (seq.++ {sq} (seq.unit {asV(self.lift(args[0]))})))"
            elif name == "extend":
                nt = f"(v_list (seq.++ {sq} (seqof {asV(self.lift(args[0]))})))"
            else:
                i = asI(self.lift(args[0]))
                pos = f"(ite (< {i} 0) (ite (< (+ {i} (seq.len {sq})) 0) 0 (+ {i} (seq.len {sq}))) (ite (> {i} (seq.len {sq})) (seq.len {sq}) {i}))"
                nt = f"(v_list (seq.++ (seq.extract {sq} 0 {pos}) (seq.unit {asV(self.lift(args[1]))}) (seq.extract {sq} {pos} (- (seq.len {sq}) {pos}))))"
            new = Val(nt, kind="list", fresh=lr.fresh, origin=lr.origin)
            res = self.store_back(st, target, new, node)
            return [(s_, r_[1] if r_ else PyC(None)) for s_, r_ in res]
        if isinstance(recv, PyList):
            recv = self.lift(recv)
        if isinstance(recv, PyC):
            recv = self.lift(recv)
        if isinstance(recv, SymObj):
            dv = self.oattrs(st, recv).get("__dictview__")
            if dv is not None and name in ("items", "values", "keys", "get"):
                recv = dv
            else:
                recv = self.lift(recv)
        k = recv.kind
        t = asV(recv)
        if k in (None, "obj") and name in ("items", "values", "keys", "get") and recv.sort == "V":
            # a dict, or an object of a dict subclass: its mapping
            mapping = f"(or (k_dict {t}) (and (k_obj {t}) (subclass (class_of (oid {t})) T_DICT)))"
            if self.exc_expected(AttributeError):
                # inside `try: x.values() except AttributeError`: in the closed class table only dicts and dict subclasses have
                # these methods, so the call raises AttributeError exactly when the receiver is not a mapping
                paths = self.raising(st, None, [(AttributeError, Not(mapping))], node)
                self.trusted_used.add("closed world: only dicts and objects of dict subclasses have .items/.values/.keys/.get; on any other value the attribute lookup raises AttributeError")
                st2 = paths[-1][0]
                self.trusted_used.add("objects of dict subclasses (_PropertyDict, PatternDict): their mapping is obj_dict(x); dict methods not overridden behave as dict's")
                as_map = Val(self.as_dict(t), kind="dict", origin=getattr(recv, "origin", None))
                return paths[:-1] + self.builtin_method(st2, as_map, name, args, kwargs, node)
            self.obl("kind", node, st, mapping, detail=f"receiver of .{name}() is a mapping")
            t = self.as_dict(t)
            k = "dict"
            self.trusted_used.add("objects of dict subclasses (_PropertyDict, PatternDict): their mapping is obj_dict(x); dict methods not overridden behave as dict's")
        if k == "dict":
            if name == "items":
                return [(st, Val(t, kind="dict_items", origin=getattr(recv, "origin", None)))]
            if name == "values":
                return [(st, Val(t, kind="dict_values", origin=getattr(recv, "origin", None)))]
            if name == "keys":
                return [(st, Val(t, kind="dict"))]
            if name == "get":
                key = self.lift(args[0])
                d = self.lift(args[1]) if len(args) > 1 else Val("v_none")
                ks = asS(key)
                hint = None
                try:
                    hint = self.contract.kinds.get(ast.unparse(node))
                except Exception:
                    pass
                return [(st, Val(Ite(f"(dhas {t} {ks})", f"(dval {t} {ks})", asV(d)),
                                 fresh=Ite(f"(dhas {t} {ks})", FALSE, d.fresh if isinstance(d, Val) else FALSE),
                                 origin=(f"{recv.origin}[{ks}]" if getattr(recv, "origin", None) else None)))]
        if k == "str":
            if name == "startswith":
                return [(st, mkB(f"(str.prefixof {asS(self.lift(args[0]))} {asS(recv)})"))]
            if name == "replace":
                return [(st, mkS(f"(str.replace_all {asS(recv)} {asS(self.lift(args[0]))} {asS(self.lift(args[1]))})"))]
            if name in ("lstrip", "lower", "upper", "title", "strip"):
                return [(st, self.fresh_val("str_" + name, sort="S"))]
        h = getattr(self, "method_hook", None)
        if h:
            r = h(st, recv, name, args, kwargs, node)
            if r is not None:
                return r
        raise OutOfSubset(f"method {name} on {k}", node)

    def str_format(self, st, fmt, args, kwargs, node):
        import string
        fields = [f for _, f, _, _ in string.Formatter().parse(fmt) if f is not None]
        if args:
            raise OutOfSubset("positional str.format", node)
        # kwargs may be a python-side dict (from **{...}) or symbolic (**self.params)
        for f in fields:
            base = f.split(".")[0].split("[")[0]
            if base not in kwargs:
                sym = kwargs.get("__symbolic__")
                if sym is None:
                    return self.raising(st, None, [(KeyError, TRUE)], node)[:-1]
                res = self.raising(st, None, [(KeyError, Not(f"(dhas {asV(sym)} {smt.sstr(base)})"))], node)
                st = res[-1][0]
                if len(res) > 1:
                    return res[:-1] + [(st, self.fresh_val("fmt", sort="S"))]
        return [(st, self.fresh_val("fmt", sort="S"))]


class SuperProxy:
    def __init__(self, selfv, defcls):
        self.selfv = selfv
        self.defcls = defcls
