"""Statement execution: returns list of (state, signal); signal None | ('return', v) | ('raise', Exc)
| ('break',) | ('continue',)."""
import ast

from .contracts import SpecEval
from .terms import (mseq, And, Or, Not, Implies, Ite, Eq, asV, asB, asI, asS, mkB, mkI, mkS, TRUE, FALSE,
                    seq_of_terms)
from .values import (CondList, Val, PyC, PyList, SymObj, SDict, Closure, BM, Exc, OutOfSubset, fresh_name)
from .exprs import is_exc


class StmtMixin:
    def exec_block(self, st, stmts):
        paths = [(st, None)]
        for stmt in stmts:
            nxt = []
            for s, sig in paths:
                if sig is not None:
                    nxt.append((s, sig))
                else:
                    if getattr(self, "partial_ok", False) and self.call_depth == 0:
                        nobl = len(self.obls)
                        try:
                            nxt.extend(self.exec(s.fork(), stmt))
                        except OutOfSubset as e:
                            # this path leaves the subset here: it ends as an undecided outcome; other paths go on.
                            # obligations emitted while executing the statement are kept (they are about what was executed)
                            line = getattr(e.node, "lineno", getattr(stmt, "lineno", 0)) if e.node is not None else getattr(stmt, "lineno", 0)
                            nxt.append((s, ("oos", f"{e} (L{line})")))
                    else:
                        nxt.extend(self.exec(s, stmt))
            paths = nxt
            if len(paths) > self.max_paths:
                raise OutOfSubset(f"path explosion (> {self.max_paths})", stmt)
        return paths

    def exec(self, st, n):
        if self.call_depth == 0 and self.contract.ghost.get("reach"):
            try:
                src = ast.unparse(n)
            except Exception:
                src = ""
            for pat, cond in self.contract.ghost["reach"]:
                if src.startswith(pat):
                    sp = SpecEval(self, {**self.entry_env_for_reach, **{k: v for k, v in st.env.items() if k not in self.entry_env_for_reach}},
                                  old_env=self.entry_env_for_reach, glob=self.cur_glob)
                    saved = self.spec_state
                    self.spec_state = st
                    try:
                        self.obl("reach", n, st, sp.compile_bool(cond), detail=f"whenever `{pat}...` is reached: {cond}")
                    finally:
                        self.spec_state = saved
        m = getattr(self, "s_" + type(n).__name__, None)
        if m is None:
            raise OutOfSubset(f"statement {type(n).__name__}", n)
        return m(st, n)

    def s_Pass(self, st, n):
        return [(st, None)]

    def s_Expr(self, st, n):
        if isinstance(n.value, ast.Constant):
            return [(st, None)]
        if isinstance(n.value, ast.Yield):
            # generators have eager list semantics: every consumer in scope drains them before touching state they read
            out = []
            for s, v in (self.ev(st, n.value.value) if n.value.value is not None else [(st, PyC(None))]):
                if is_exc(v):
                    out.append((s, ("raise", v)))
                    continue
                cur = s.env.get("__yield__", PyList([], "list"))
                if isinstance(cur, PyList):
                    new = PyList(cur.items + [v], "list")
                elif isinstance(cur, CondList):
                    new = CondList(cur.entries + [(TRUE, v)])
                else:
                    new = self.named_concat(s, [("seq", f"(seqof {asV(self.lift(cur))})"), ("unit", asV(self.lift(v)))], "yl")
                s.env = {**s.env, "__yield__": new}
                out.append((s, None))
            return out
        if isinstance(n.value, ast.YieldFrom):
            out = []
            for s, v in self.ev(st, n.value.value):
                if is_exc(v):
                    out.append((s, ("raise", v)))
                    continue
                cur = s.env.get("__yield__", PyList([], "list"))
                items = self.static_items(v)
                if isinstance(cur, PyList) and items is not None:
                    new = PyList(cur.items + items, "list")
                elif isinstance(cur, CondList) and items is not None:
                    new = CondList(cur.entries + [(TRUE, x) for x in items])
                else:
                    new = self.named_concat(s, [("seq", f"(seqof {asV(self.lift(cur))})"), ("seq", f"(seqof {asV(self.lift(v))})")], "yl")
                s.env = {**s.env, "__yield__": new}
                out.append((s, None))
            return out
        return [(s, ("raise", v) if is_exc(v) else None) for s, v in self.ev(st, n.value)]

    def s_Return(self, st, n):
        if n.value is None:
            return [(st, ("return", PyC(None)))]
        return [(s, ("raise", v) if is_exc(v) else ("return", v)) for s, v in self.ev(st, n.value)]

    def s_Assign(self, st, n):
        out = []
        for s, v in self.ev(st, n.value):
            if is_exc(v):
                out.append((s, ("raise", v)))
                continue
            paths = [(s, None)]
            for tgt in n.targets:
                nxt = []
                for s1, sig in paths:
                    if sig is not None:
                        nxt.append((s1, sig))
                    else:
                        nxt.extend(self.store(s1, tgt, v, n))
                paths = nxt
            out.extend(paths)
        return out

    def s_AnnAssign(self, st, n):
        if n.value is None:
            return [(st, None)]
        out = []
        for s, v in self.ev(st, n.value):
            if is_exc(v):
                out.append((s, ("raise", v)))
            else:
                out.extend(self.store(s, n.target, v, n))
        return out

    def store(self, st, tgt, v, node):
        """Assignment to a target. Returns list of (state, signal)."""
        if isinstance(tgt, (ast.Name, ast.Tuple, ast.List)):
            if isinstance(tgt, ast.Name):
                k = self.contract.kinds.get("=" + tgt.id)
                if k and isinstance(v, Val) and v.sort == "V" and v.kind is None:
                    hint = self.kind_hint(k)
                    self.obl("kind", node, st, self.kind_pred(hint, v.t), detail=f"local {tgt.id} is {k} after this assignment")
                    st.assume(self.kind_pred(hint, v.t), fact=True)
                    v = Val(v.t, "V", v.fresh, hint[0], hint[1], v.origin)
                st.env = {**st.env, tgt.id: v}
            else:
                st.env = dict(st.env)
                self.assign_target(st, tgt, v, node)
            return [(st, None)]
        if isinstance(tgt, ast.Attribute):
            out = []
            for s, base in self.ev(st, tgt.value):
                if is_exc(base):
                    out.append((s, ("raise", base)))
                else:
                    out.extend(self.setattr(s, base, tgt.attr, v, node, src=ast.unparse(tgt)))
            return out
        if isinstance(tgt, ast.Subscript):
            out = []
            for s, vals in self.ev_seq(st, [tgt.value, tgt.slice]):
                if is_exc(vals):
                    out.append((s, ("raise", vals)))
                else:
                    out.extend(self.setitem(s, tgt.value, vals[0], vals[1], v, node))
            return out
        raise OutOfSubset("assignment target", node)

    # ---- heap writes
    def setattr(self, st, base, name, v, node, src=None):
        if isinstance(base, Exc):
            base = base.val
        if isinstance(base, SymObj):
            import inspect
            d = inspect.getattr_static(base.cls, name, None)
            if isinstance(d, property) and d.fset is not None:
                res = self.call_function(st, d.fset, [base, v], {}, node, selfcls=base.cls, setter=True)
                return [(s, ("raise", r) if is_exc(r) else None) for s, r in res]
            if base.term is not None:
                raise OutOfSubset("write to an object after it escaped", node)
            self.oset(st, base, name, v)
            # SymObj is shared between forked states: copy-on-write per state is not modelled, so
            # a write after a fork point would leak; constructors here are straight-line.
            return [(st, None)]
        if isinstance(base, PyC):
            raise OutOfSubset(f"write to attribute of constant {base.obj!r:.40}", node)
        lb = self.lift(base)
        import inspect
        if lb.cls is not None:
            d = inspect.getattr_static(lb.cls, name, None)
            if isinstance(d, property) and d.fset is not None:
                res = self.call_function(st, d.fset, [lb, v], {}, node, selfcls=lb.cls, setter=True)
                return [(s, ("raise", r) if is_exc(r) else None) for s, r in res]
        lv = self.lift(v)
        old = f"({self.cur_attr(st, name)} {asV(lb)})"
        self.frame_write(st, lb, f"{lb.origin or '?'}.{name}", node,
                         same=Eq(old, asV(lv)) if self.idempotent_ok(lb, name) else None)
        self.heap_store(st, name, asV(lb), asV(lv))
        return [(st, None)]

    def cur_attr(self, st, name):
        name = self.attr_alias(name)
        return st.ghost.get(("H", name)) or self.attr_fun(name)

    def heap_store(self, st, name, obj_t, val_t):
        name = self.attr_alias(name)
        old = self.cur_attr(st, name)
        new = self.declare_fun(fresh_name("H_" + name.replace("__", "dd_")), ["V"], "V")
        o = fresh_name("o")
        st.assume(f"(forall (({o} V)) (! (= ({new} {o}) (ite (= {o} {obj_t}) {val_t} ({old} {o}))) :pattern (({new} {o}))))")
        st.ghost = {**st.ghost, ("H", name): new}
        self.heap_written.add(name)

    def idempotent_ok(self, lb, name):
        for pat in self.contract.idempotent_writes:
            if pat == name or pat == f"*.{name}":
                return True
        return False

    def frame_write(self, st, target, what, node, same=None):
        """Pass F obligation: the written object is fresh, or covered by `modifies`, or the write stores
        the value already there (only for fields the contract declares idempotent)."""
        if isinstance(target, (SymObj, PyList)):
            return
        if isinstance(target, PyC):
            self.obl("frame", node, st, FALSE, detail=f"write to module-level constant {what}")
            return
        origin = target.origin or ""
        for m in self.contract.modifies:
            if origin == m or origin.startswith(m + ".") or origin.startswith(m + "["):
                self.frame_log.append((what, "modifies:" + m))
                return
        goal = target.fresh
        if same is not None:
            goal = Or(goal, same)
        self.frame_log.append((what, "fresh" if goal == TRUE else "obligation"))
        self.obl("frame", node, st, goal, detail=f"write to {what} (not fresh, not in modifies {self.contract.modifies})")

    def frame_write_via_callee(self, st, c, m, env, node):
        """A callee with `modifies m` was called: the object m denotes at the call site must be
        fresh or in our own modifies."""
        root = m.split(".")[0].split("[")[0]
        v = env.get(root)
        if v is None:
            return
        if isinstance(v, (SymObj, PyList)):
            return
        if isinstance(v, PyC):
            from statham.schema.constants import NotPassed
            if v.obj is None or isinstance(v.obj, (bool, int, float, str, tuple, frozenset, NotPassed)):
                return      # immutable: nothing to modify
            self.obl("frame", node, st, FALSE, detail=f"callee {c.name} modifies constant {m}")
            return
        tgt = self.lift(v)
        rec = self.callee_writes.get((id(c), root))
        if rec is not None and any(p == c.name or p == c.name + ":" + root for p in self.contract.idempotent_writes):
            # the caller declares these writes idempotent: obligation = every written field keeps its value
            same = And(*[Eq(old, new) for _, old, new in rec])
            origin = tgt.origin or ""
            if any(origin == mm or origin.startswith(mm + ".") for mm in self.contract.modifies):
                return
            self.frame_log.append((f"{c.name}:{m}", "idempotent"))
            self.obl("frame", node, st, Or(tgt.fresh, same),
                     detail=f"callee {c.name} writes {[a for a, _, _ in rec]} of a pre-existing object: must be fresh or keep the values they hold")
            return
        self.frame_write(st, tgt, f"{c.name}:{m}", node)

    def setitem(self, st, base_node, base, idx, v, node):
        if isinstance(base_node, ast.Attribute) and base_node.attr == "__dict__" and isinstance(idx, PyC) and isinstance(idx.obj, str):
            # obj.__dict__[name] = v  is an attribute write that bypasses descriptors
            out = []
            for s, ob in self.ev(st, base_node.value):
                if is_exc(ob):
                    out.append((s, ("raise", ob)))
                elif isinstance(ob, SymObj):
                    self.oset(s, ob, idx.obj, v)
                    out.append((s, None))
                else:
                    lo = self.lift(ob)
                    self.frame_write(s, lo, f"{lo.origin or '?'}.__dict__[{idx.obj!r}]", node)
                    self.heap_store(s, idx.obj, asV(lo), asV(self.lift(v)))
                    out.append((s, None))
            return out
        if isinstance(base, SDict) and base.term is None and isinstance(idx, PyC) and isinstance(idx.obj, str):
            nd = base.copy()
            nd.entries[idx.obj] = (TRUE, v)
            return self.store_back(st, base_node, nd, node)
        if isinstance(base, PyList):
            raise OutOfSubset("item assignment on static list", node)
        if isinstance(base, dict):
            k = idx.obj if isinstance(idx, PyC) else None
            if not isinstance(k, str):
                raise OutOfSubset("kwargs dict with symbolic key", node)
            base[k] = v
            return [(st, None)]
        cls = getattr(base, "cls", None)
        if cls is not None and cls.__module__.startswith("statham") and not isinstance(base, PyC):
            import inspect
            d = inspect.getattr_static(cls, "__setitem__", None)
            if inspect.isfunction(d):
                res = self.call_function(st, d, [base, idx, v], {}, node, selfcls=cls)
                return [(s, ("raise", r) if is_exc(r) else None) for s, r in res]
        lb, li, lv = self.lift(base), self.lift(idx), self.lift(v)
        if lb.kind == "list" and (li.sort == "I" or li.kind == "int"):
            self.frame_write(st, lb, lb.origin or ast.unparse(base_node), node)
            sq = f"(lval {asV(lb)})"
            i = f"(norm_index (seq.len {sq}) {asI(li)})"
            new = f"(v_list (seq.++ (seq.extract {sq} 0 {i}) (seq.unit {asV(lv)}) (seq.extract {sq} (+ {i} 1) (- (seq.len {sq}) (+ {i} 1)))))"
            nv = Val(new, kind="list", fresh=lb.fresh, origin=lb.origin)
            res = self.raising(st, None, [(IndexError, Not(f"(and (<= 0 {i}) (< {i} (seq.len {sq})))"))], node)
            out = [(s_, ("raise", r_)) for s_, r_ in res[:-1]]
            return out + self.store_back(res[-1][0], base_node, nv, node)
        if lb.kind is None and lb.sort == "V" and (li.sort == "S" or li.kind == "str"):
            self.obl("kind", node, st, f"(k_dict {lb.t})", detail=f"{ast.unparse(base_node)} is a dict at the item assignment")
            st.assume(f"(k_dict {lb.t})")
            lb = Val(lb.t, "V", lb.fresh, "dict", None, lb.origin)
        if lb.kind != "dict":
            raise OutOfSubset(f"item assignment on {lb.kind}", node)
        self.frame_write(st, lb, lb.origin or ast.unparse(base_node), node)
        new = self.dict_set(st, asV(lb), asS(li), asV(lv))
        if isinstance(idx, PyC) and isinstance(idx.obj, str):
            self.dict_known[new] = {**self.dict_known.get(asV(lb), {}), idx.obj: v}
        nv = Val(new, kind="dict", fresh=lb.fresh, origin=lb.origin)
        return self.store_back(st, base_node, nv, node)

    def dict_set(self, st, d, k, v):
        r = self.fresh_val("dset", kind="dict")
        q = fresh_name("k")
        st.assume(f"(k_dict {r.t})")
        st.assume(f"(forall (({q} String)) (! (= (dval {r.t} {q}) (ite (= {q} {k}) {v} (dval {d} {q}))) :pattern ((dval {r.t} {q}))))")
        st.assume(f"(= (seq.len (ditems {r.t})) (ite (dhas {d} {k}) (seq.len (ditems {d})) (+ 1 (seq.len (ditems {d})))))")
        st.assume(f"(=> (dict_wf {d}) (dict_wf {r.t}))")
        self.trusted_used.add("dict item assignment: lookup/size/well-formedness axioms")
        return r.t

    def store_back(self, st, base_node, newval, node):
        """After a pure-value update of a container, rebind the place the container was read from."""
        if isinstance(base_node, ast.Name):
            st.env = {**st.env, base_node.id: newval}
            return [(st, None)]
        if isinstance(base_node, ast.Attribute):
            out = []
            for s, b in self.ev(st, base_node.value):
                if is_exc(b):
                    out.append((s, ("raise", b)))
                elif isinstance(b, SymObj):
                    self.oset(s, b, base_node.attr, newval)
                    out.append((s, None))
                else:
                    lb = self.lift(b)
                    self.heap_store(s, base_node.attr, asV(lb), asV(newval))
                    out.append((s, None))
            return out
        if isinstance(base_node, ast.Subscript):
            # d[a][b] = v : update inner then outer
            raise OutOfSubset("nested container update", node)
        raise OutOfSubset("container update through an expression", node)

    def s_AugAssign(self, st, n):
        out = []
        load = ast.copy_location(_as_load(n.target), n.target)
        for s, vals in self.ev_seq(st, [load, n.value]):
            if is_exc(vals):
                out.append((s, ("raise", vals)))
                continue
            cur, rhs = vals
            lcur0 = self._try_lift(cur)
            if isinstance(n.op, ast.Add) and lcur0 is not None and lcur0.kind is None and lcur0.sort == "V":
                # `x += y` on a value of statically unknown kind: must be a list here (obligation), then in-place extend
                self.obl("kind", n, s, f"(k_list {lcur0.t})", detail=f"{ast.unparse(n.target)} is a list at +=")
                s.assume(f"(k_list {lcur0.t})")
                lcur0.kind = "list"
                cur = lcur0
            if isinstance(n.op, ast.Add) and (isinstance(cur, PyList) or getattr(self._try_lift(cur), "kind", None) == "list"):
                # list += iterable : in-place extend
                if isinstance(cur, PyList):
                    if isinstance(rhs, PyList):
                        newv = PyList(cur.items + rhs.items, "list")
                    else:
                        lr = self.lift(rhs)
                        newv = Val(f"(v_list (seq.++ (seqof {asV(self.lift(cur))}) (seqof {asV(lr)})))", kind="list", fresh=TRUE)
                else:
                    lcur = self.lift(cur)
                    self.frame_write(s, lcur, ast.unparse(n.target), n)
                    lr = self.lift(rhs)
                    newv = Val(f"(v_list (seq.++ (seqof {asV(lcur)}) (seqof {asV(lr)})))", kind="list",
                               fresh=lcur.fresh, origin=lcur.origin)
                out.extend(self.store(s, n.target, newv, n))
                continue
            for s2, r in self.binop(s, n.op, cur, rhs, n):
                if is_exc(r):
                    out.append((s2, ("raise", r)))
                else:
                    out.extend(self.store(s2, n.target, r, n))
        return out

    def _try_lift(self, v):
        try:
            return self.lift(v)
        except OutOfSubset:
            return None

    def s_If(self, st, n):
        out = []
        for s, c in self.ev(st, n.test):
            if is_exc(c):
                out.append((s, ("raise", c)))
                continue
            t, f = self.branch(s, self.truth(c))
            if t is not None:
                self.refine(t, n.test, True)
                out.extend(self.exec_block(t, n.body))
            if f is not None:
                self.refine(f, n.test, False)
                out.extend(self.exec_block(f, n.orelse))
        return self.merge_fallthrough(out)

    def merge_fallthrough(self, results):
        """Join the fall-through paths of an if (path explosion control); return/raise paths stay apart."""
        normal = [(s, None) for s, sig in results if sig is None]
        other = [(s, sig) for s, sig in results if sig is not None]
        while len(normal) >= 2:
            merged = None
            for i in range(len(normal) - 1):
                m = self.try_merge(normal[i][0], None, normal[i + 1][0], None)
                if m is not None:
                    merged = (i, (m[0], None))
                    break
            if merged is None:
                break
            i, m = merged
            normal[i:i + 2] = [m]
        return other + normal

    def refine(self, st, test, truth):
        """Static kind refinement after isinstance tests on a local name (dispatch hint only)."""
        if isinstance(test, ast.UnaryOp) and isinstance(test.op, ast.Not):
            return self.refine(st, test.operand, not truth)
        if truth and isinstance(test, ast.Call) and isinstance(test.func, ast.Name) and test.func.id == "isinstance" \
                and isinstance(test.args[0], ast.Name) and isinstance(test.args[1], ast.Name):
            name, tname = test.args[0].id, test.args[1].id
            v = st.env.get(name)
            k = {"list": "list", "dict": "dict", "str": "str", "bool": "bool", "float": "float", "int": None}.get(tname)
            if isinstance(v, Val) and k and v.kind is None and v.sort == "V":
                st.env = {**st.env, name: Val(v.t, "V", v.fresh, k, v.cls, v.origin)}

    def s_Raise(self, st, n):
        if n.exc is None:
            if self.reraise_stack:
                return [(st, ("raise", self.reraise_stack[-1]))]
            raise OutOfSubset("bare raise outside handler", n)
        out = []
        for s, v in self.ev(st, n.exc):
            if is_exc(v):
                out.append((s, ("raise", v)))
            elif isinstance(v, PyC) and isinstance(v.obj, type) and issubclass(v.obj, BaseException):
                out.append((s, ("raise", Exc(v.obj, node=n))))
            elif isinstance(v, SymObj) and issubclass(v.cls, BaseException):
                out.append((s, ("raise", Exc(v.cls, val=v, node=n))))
            elif isinstance(v, Val) and v.cls is not None and issubclass(v.cls, BaseException):
                out.append((s, ("raise", Exc(v.cls, val=v, node=n))))
            else:
                raise OutOfSubset("raise of a non-exception value", n)
        return out

    def s_Try(self, st, n):
        if n.finalbody:
            raise OutOfSubset("try/finally", n)
        handler_types = []
        for h in n.handlers:
            if h.type is None:
                handler_types.append(None)
            else:
                tv = self.ev(st, h.type)
                v = tv[0][1]
                if isinstance(v, PyC) and isinstance(v.obj, type):
                    handler_types.append((v.obj,))
                elif isinstance(v, PyC) and isinstance(v.obj, tuple):
                    handler_types.append(tuple(v.obj))
                elif isinstance(v, PyList):
                    handler_types.append(tuple(x.obj for x in v.items))
                else:
                    raise OutOfSubset("except clause type", n)
        flat = None if any(h is None for h in handler_types) else tuple(t for h in handler_types for t in h)
        self.catch_stack.append(flat)
        try:
            body = self.exec_block(st, n.body)
        finally:
            self.catch_stack.pop()
        out = []
        for s, sig in body:
            if sig is not None and sig[0] == "raise":
                exc = sig[1]
                handled = False
                for h, types in zip(n.handlers, handler_types):
                    if types is None or issubclass(exc.etype, types):
                        s2 = s
                        if h.name:
                            s2.env = {**s2.env, h.name: exc.val if exc.val is not None else SymObj(exc.etype, {})}
                        self.reraise_stack.append(exc)
                        try:
                            out.extend(self.exec_block(s2, h.body))
                        finally:
                            self.reraise_stack.pop()
                        handled = True
                        break
                if not handled:
                    out.append((s, sig))
            elif sig is None and n.orelse:
                out.extend(self.exec_block(s, n.orelse))
            else:
                out.append((s, sig))
        return out

    def s_Break(self, st, n):
        return [(st, ("break",))]

    def s_Continue(self, st, n):
        return [(st, ("continue",))]

    def s_Assert(self, st, n):
        out = []
        for s, c in self.ev(st, n.test):
            if is_exc(c):
                out.append((s, ("raise", c)))
                continue
            self.obl("assert", n, s, self.truth(c), detail=self.src_of(n.test))
            out.append((s.assume(self.truth(c)), None))
        return out

    def s_FunctionDef(self, st, n):
        st.env = {**st.env}
        clo = Closure(n, None, self.cur_glob, name=n.name)
        st.env[n.name] = clo
        clo.env = st.env   # closures see later bindings of the enclosing scope
        if n.decorator_list:
            names = [ast.unparse(d) for d in n.decorator_list]
            if any(not x.startswith("wraps(") for x in names):
                raise OutOfSubset(f"decorated nested function {names}", n)
        return [(st, None)]

    def s_Delete(self, st, n):
        if len(n.targets) != 1 or not isinstance(n.targets[0], ast.Subscript):
            raise OutOfSubset("del statement", n)
        tgt = n.targets[0]
        out = []
        for s, vals in self.ev_seq(st, [tgt.value, tgt.slice]):
            if is_exc(vals):
                out.append((s, ("raise", vals)))
                continue
            base, idx = vals
            if isinstance(base, SDict) and base.term is None and isinstance(idx, PyC) and isinstance(idx.obj, str):
                cnd = base.entries.get(idx.obj, (FALSE, None))[0]
                res = self.raising(s, None, [(KeyError, Not(cnd))], n)
                out.extend((s_, ("raise", r_)) for s_, r_ in res[:-1])
                nd = base.copy()
                nd.entries.pop(idx.obj, None)
                out.extend(self.store_back(res[-1][0], tgt.value, nd, n))
                continue
            raise OutOfSubset("del on a symbolic container", n)
        return out

    def s_Global(self, st, n):
        raise OutOfSubset("global statement", n)

    # ------------------------------------------------------------ loops
    def s_For(self, st, n):
        if n.orelse:
            raise OutOfSubset("for/else", n)
        out = []
        for s, it in self.ev(st, n.iter):
            if is_exc(it):
                out.append((s, ("raise", it)))
                continue
            items = self.static_items(it)
            if items is not None:
                out.extend(self.for_unrolled(s, n, items))
            else:
                out.extend(self.for_invariant(s, n, it))
        return out

    def for_unrolled(self, st, n, items):
        paths = [(st, None)]
        for item in items:
            nxt = []
            for s, sig in paths:
                if sig is not None:
                    nxt.append((s, sig))
                    continue
                s.env = dict(s.env)
                self.assign_target(s, n.target, item, n)
                for s2, sg in self.exec_block(s, n.body):
                    if sg is not None and sg[0] == "continue":
                        sg = None
                    nxt.append((s2, sg))
            paths = self.merge_fallthrough(nxt)
        return [(s, None if sig is not None and sig[0] == "break" else sig) for s, sig in paths]

    def assigned_names(self, stmts):
        names = set()
        for stmt in stmts:
            for x in ast.walk(stmt):
                if isinstance(x, ast.Name) and isinstance(x.ctx, ast.Store):
                    names.add(x.id)
                elif isinstance(x, ast.AugAssign) and isinstance(x.target, ast.Name):
                    names.add(x.target.id)
                elif isinstance(x, ast.Call) and isinstance(x.func, ast.Attribute) and isinstance(x.func.value, ast.Name):
                    from .calls import LIST_MUTATORS, DICT_MUTATORS, SET_MUTATORS
                    if x.func.attr in LIST_MUTATORS | DICT_MUTATORS | SET_MUTATORS:
                        names.add(x.func.value.id)
        return names

    def yield_loop_as_comprehension(self, st, n, it):
        body = n.body
        test = None
        if len(body) == 1 and isinstance(body[0], ast.If) and not body[0].orelse and len(body[0].body) == 1:
            test = body[0].test
            body = body[0].body
        if not (len(body) == 1 and isinstance(body[0], ast.Expr) and isinstance(body[0].value, ast.Yield) and body[0].value.value is not None):
            return None
        name = fresh_name("ysrc")
        comp = ast.ListComp(elt=body[0].value.value,
                            generators=[ast.comprehension(target=n.target, iter=ast.Name(id=name, ctx=ast.Load()), ifs=[test] if test is not None else [], is_async=0)])
        ast.copy_location(comp, n)
        ast.fix_missing_locations(comp)
        s0 = st.fork()
        s0.env = {**s0.env, name: it}
        out = []
        for s, v in self.comprehension(s0, comp, "list"):
            s.env = {k: w for k, w in s.env.items() if k != name}
            if is_exc(v):
                out.append((s, ("raise", v)))
                continue
            cur = s.env.get("__yield__", PyList([], "list"))
            if isinstance(cur, PyList) and not cur.items:
                new = v
            else:
                new = Val(f"(v_list (seq.++ (seqof {asV(self.lift(cur))}) (seqof {asV(self.lift(v))})))", kind="list", fresh=TRUE)
            s.env = {**s.env, "__yield__": new}
            out.append((s, None))
        return out

    def for_invariant(self, st, n, it):
        """Loop over a symbolic sequence, cut at the loop head with the sidecar invariant."""
        y = self.yield_loop_as_comprehension(st, n, it)
        if y is not None:
            return y
        # symbolic loops are numbered in order of first encounter; the same loop reached again (another path, an inlined
        # recursive activation) keeps its number and therefore its invariant
        key = (n.lineno, n.col_offset, id(n))
        if not hasattr(self, "_loop_ids") or self.loop_ordinal == 0:
            self._loop_ids = {}
        if key not in self._loop_ids:
            self.loop_ordinal += 1
            self._loop_ids[key] = self.loop_ordinal
        ordinal = self._loop_ids[key]
        inv_src = self.contract.invariants.get(ordinal, "True")
        sq, elem = self.iter_seq_term(it, n, st)
        modified = self.assigned_names(n.body) - set(self.target_names(n.target))
        if any(isinstance(x, (ast.Yield, ast.YieldFrom)) for b in n.body for x in ast.walk(b)):
            if "__yield__" not in st.env:
                st.env = {**st.env, "__yield__": PyList([], "list")}
            modified.add("__yield__")
        modified |= getattr(self, "_loop_extra", {}).get(id(n), set())
        modified = [m for m in sorted(modified) if m in st.env]
        n_obl = len(self.obls)
        self.container_touched = set()

        def inv_at(s, k):
            self.spec_state = s
            extra = {"_yielded": s.env["__yield__"]} if "__yield__" in s.env else {}
            sp = SpecEval(self, {**s.env, **extra, "_k": mkI(k), "_n": mkI(f"(seq.len {sq})"),
                                 "_seq": Val(f"(v_list {sq})", kind="list")})
            return sp.compile_bool(inv_src)

        # init
        s_init = st
        if "prefix(" in inv_src:
            s_init = st.fork().assume(f"(= (seq.extract {mseq(sq)} 0 0) (as seq.empty (Seq V)))", fact=True)      # IS-MEM: prefix ends
        self.obl("inv-init", n, s_init, inv_at(s_init, "0"), detail=f"loop {ordinal}: {inv_src}")
        # arbitrary iteration
        k = self.declare(fresh_name("k"), "Int")
        s = st.fork()
        s.env = dict(s.env)
        for m in modified:
            old = s.env[m]
            lo = self._try_lift(old)
            s.env[m] = self.fresh_val("loop_" + m, kind=getattr(lo, "kind", None), cls=getattr(lo, "cls", None))
            if lo is not None:
                s.env[m].fresh = lo.fresh
                s.env[m].origin = lo.origin
        havoc_env = dict(s.env)
        s.assume(f"(and (<= 0 {k}) (< {k} (seq.len {sq})))")
        s.assume(inv_at(s, k))
        try:
            if "member" in inv_src or "member" in self.contract.returns:
                s.assume(f"(ismem {mseq(sq)} {asV(self.lift(elem(k)))})", fact=True)    # the loop element is a member of the sequence (IS-MEM)
            if "prefix(" in inv_src:
                # xs[:k+1] == xs[:k] + [xs[k]], in membership form (IS-MEM: prefix step, concat, unit)
                x = fresh_name("x")
                msq = mseq(sq)
                s.assume(f"(forall (({x} V)) (! (= (ismem (seq.extract {msq} 0 (+ {k} 1)) {x}) (or (ismem (seq.extract {msq} 0 {k}) {x}) (= {x} (seq.nth {sq} {k})))) :pattern ((ismem (seq.extract {msq} 0 (+ {k} 1)) {x}))))", fact=True)
        except OutOfSubset:
            pass
        self.assign_target(s, n.target, elem(k), n)
        out = []
        for s2, sig in self.exec_block(s, n.body):
            if sig is None or sig[0] == "continue":
                self.obl("inv-keep", n, s2, inv_at(s2, f"(+ {k} 1)"), detail=f"loop {ordinal}: {inv_src}")
            elif sig[0] == "break":
                out.append((s2, None))
            else:
                out.append((s2, sig))
        missed = {m for m in self.container_touched if m in st.env and m not in modified}
        if missed:
            # a callee mutated a container held in a local the syntactic scan did not see: redo the loop with it havocked
            self._loop_extra = {**getattr(self, "_loop_extra", {}), id(n): getattr(self, "_loop_extra", {}).get(id(n), set()) | missed}
            del self.obls[n_obl:]
            return self.for_invariant(st, n, it)
        # exit
        e = st.fork()
        e.env = dict(havoc_env)
        e.assume(inv_at(e, f"(seq.len {sq})"))
        if "prefix(" in inv_src:
            e.assume(f"(= (seq.extract {mseq(sq)} 0 (seq.len {sq})) {mseq(sq)})", fact=True)      # IS-MEM: prefix ends
        out.append((e, None))
        return out

    def s_While(self, st, n):
        raise OutOfSubset("while loop", n)


def _as_load(t):
    import copy
    t2 = copy.deepcopy(t)
    for x in ast.walk(t2):
        if hasattr(x, "ctx"):
            x.ctx = ast.Load()
    return t2
