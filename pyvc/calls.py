"""Attribute access, calls (by contract / builtin models / inlined closures), comprehensions."""
import ast
import builtins
import inspect
import re as _re
import types
import warnings as _warnings

from . import smt
from .contracts import REG, lookup, SpecEval
from .front import key_of_function, find_function
from .terms import (mseq, And, Or, Not, Implies, Ite, Eq, asV, asB, asI, asS, mkB, mkI, mkS, TRUE, FALSE,
                    const_term, seq_of_terms, KIND_OF_PY, isinstance_term)
from .values import (CondList, Val, PyC, PyList, SymObj, SDict, Closure, BM, Exc, OutOfSubset, fresh_name)
from .exprs import is_exc

LIST_MUTATORS = {"append", "extend", "insert", "pop", "remove", "clear", "sort", "reverse"}
DICT_MUTATORS = {"update", "setdefault", "pop", "popitem", "clear"}
SET_MUTATORS = {"add", "discard", "remove", "clear", "update", "pop"}


def _object_init(*a, **k):
    return None


_MISSING = object()


class StarVal:
    """*xs where xs is a symbolic sequence: only accepted by a callee with a *args parameter."""
    def __init__(self, val):
        self.val = val


def _static(cls, name, default=None):
    try:
        return inspect.getattr_static(cls, name)
    except AttributeError:
        return default


class CallMixin:
    # ------------------------------------------------------------ getattr
    def getattr(self, st, base, name, node):
        if isinstance(base, Exc):
            base = base.val
        from .builtins_model import SuperProxy
        if isinstance(base, SuperProxy):
            selfv = base.selfv
            scls = selfv.obj if isinstance(selfv, PyC) else selfv.cls
            mro = list(scls.__mro__)
            for k in mro[mro.index(base.defcls) + 1:]:
                if name in vars(k):
                    d = vars(k)[name]
                    if isinstance(d, classmethod):
                        return [(st, BM(PyC(scls), name, d.__func__))]
                    if isinstance(d, staticmethod):
                        return [(st, PyC(d.__func__))]
                    if inspect.isfunction(d):
                        return [(st, BM(selfv, name, d))]
                    if k is object and name == "__init__":
                        return [(st, PyC(_object_init))]
                    raise OutOfSubset(f"super().{name} resolves to a non-function", node)
            raise OutOfSubset(f"super().{name} not found", node)
        if isinstance(base, PyC):
            o = base.obj
            if isinstance(o, type):
                d = _static(o, name)
                if d is None:
                    return self.raising(st, None, [(AttributeError, TRUE)], node)[:-1]
                if isinstance(d, (staticmethod, classmethod)):
                    f = d.__func__
                    if isinstance(d, classmethod):
                        return [(st, BM(base, name, f))]
                    return [(st, PyC(f))]
                if isinstance(d, property) and isinstance(type(o), type) and type(o) is not type \
                        and _static(type(o), name) is not None:
                    d = _static(type(o), name)
                if inspect.isfunction(d):
                    return [(st, PyC(d))]
                return [(st, PyC(getattr(o, name)))]
            if isinstance(o, types.ModuleType) or inspect.isfunction(o) or inspect.isbuiltin(o):
                try:
                    return [(st, PyC(getattr(o, name)))]
                except AttributeError:
                    return self.raising(st, None, [(AttributeError, TRUE)], node)[:-1]
            if isinstance(o, (str, tuple, list, dict, set, frozenset, int, float)):
                return [(st, BM(base, name))]
            if type(o).__module__.startswith("statham") and not isinstance(o, type):
                # a live statham object (module-level singleton): mutable state, so symbolic attributes
                return self.getattr(st, self.named_object(o), name, node)
            # live instance used as a constant: its attributes are constants too
            try:
                val = getattr(o, name)
            except AttributeError:
                return self.raising(st, None, [(AttributeError, TRUE)], node)[:-1]
            if inspect.ismethod(val):
                return [(st, BM(base, name, val.__func__))]
            return [(st, PyC(val))]
        if isinstance(base, (PyList, dict, SDict)):
            return [(st, BM(base, name))]
        if isinstance(base, SymObj):
            d = _static(base.cls, name)
            if isinstance(d, property) and self.attr_alias(name) != name:
                name = self.attr_alias(name)
                d = _static(base.cls, name)
            if isinstance(d, property):
                return self.call_function(st, d.fget, [base], {}, node, selfcls=base.cls)
            if name in self.oattrs(st, base):
                return [(st, self.oattrs(st, base)[name])]
            if d is None:
                return self.raising(st, None, [(AttributeError, TRUE)], node)[:-1]
            if inspect.isfunction(d):
                return [(st, BM(base, name, d))]
            if isinstance(d, classmethod):
                return [(st, BM(PyC(base.cls), name, d.__func__))]
            if isinstance(d, staticmethod):
                return [(st, PyC(d.__func__))]
            if inspect.ismethoddescriptor(d) or inspect.isbuiltin(d):
                return [(st, BM(base, name))]
            return [(st, PyC(d))]
        # SMT-level value
        v = base
        if name == "__dict__" and isinstance(v, Val):
            return [(st, Val(f"({self.declare_fun('obj_vars', ['V'], 'V')} {asV(v)})", kind="dict", origin=(f"{v.origin}.__dict__" if v.origin else None)))]
        if v.kind in ("list", "dict", "str", "set", "tuple") and v.cls is None:
            return [(st, BM(v, name))]
        if v.kind == "cls" and v.cls is None:
            # attribute of a *symbolic* class: a computed property of the metaclass ObjectMeta dispatches through its
            # caller's-view contract, provided the class is provably a model class here
            from statham.schema.elements.meta import ObjectMeta as _OM
            d = _static(_OM, name)
            if isinstance(d, property):
                # contracts for class receivers: the metaclass's own properties (inst None), or an Element property
                # instantiated for class receivers (inst "@cls")
                kf = key_of_function(d.fget)
                cc = lookup(kf, "@cls") if (kf, "@cls") in REG else (lookup(kf, None) if kf.startswith("statham.schema.elements.meta:") else None)
                if cc is not None:
                    g = f"(= (meta_of (cid {asV(v)})) {self.ctab.cid(_OM)})"
                    self.obl("kind", node, st, g, detail=f"receiver of .{name} is a model class (metaclass ObjectMeta)")
                    st.assume(g, fact=True)
                    return self.call_by_contract(st, cc, d.fget, [v], {}, node)
        if name == "__name__" and v.kind == "cls":
            # every class has a name: a function of the class
            return [(st, Val(f"({self.declare_fun('cls_name', ['Int'], 'String')} (cid {asV(v)}))", "S"))]
        if v.cls is not None:
            d = _static(v.cls, name, _MISSING)
            if d is None and name not in self.instance_attrs(v.cls):
                return [(st, PyC(None))]
            if d is _MISSING:
                d = None
            if isinstance(d, property) and self.attr_alias(name) != name:
                d = None      # transparent getter: read the aliased attribute
            if isinstance(d, property):
                return self.call_function(st, d.fget, [v], {}, node, selfcls=v.cls)
            if inspect.isfunction(d):
                return [(st, BM(v, name, d))]
            if isinstance(d, classmethod):
                return [(st, BM(PyC(v.cls), name, d.__func__))]
            if isinstance(d, staticmethod):
                return [(st, PyC(d.__func__))]
            if d is not None and name not in self.instance_attrs(v.cls) and not inspect.isdatadescriptor(d) \
                    and not inspect.ismethoddescriptor(d):
                return [(st, PyC(d))]
            if d is not None and (inspect.ismethoddescriptor(d)) and name not in self.instance_attrs(v.cls):
                return [(st, BM(v, name))]
        if v.t in self.escaped_objs and name in self.oattrs(st, self.escaped_objs[v.t]):
            return [(st, self.oattrs(st, self.escaped_objs[v.t])[name])]
        if v.cls is None and v.sort == "V" and v.kind in (None, "obj"):
            # a computed property of the element hierarchy read from a receiver of unknown class: dispatch through the
            # caller's-view contract, provided the receiver is provably an element here
            from statham.schema.elements import Element as _Element
            d = _static(_Element, name)
            if isinstance(d, property) and self.attr_alias(name) == name and lookup(key_of_function(d.fget), None) is not None \
                    and lookup(key_of_function(d.fget), None).inst is None:
                g = isinstance_term(asV(v), _Element, self.ctab)
                self.obl("kind", node, st, g, detail=f"receiver of .{name} is an Element")
                st.assume(g, fact=True)
                return self.call_function(st, d.fget, [v], {}, node, selfcls=None)
        t = f"({self.cur_attr(st, name)} {asV(v)})"
        hint = self.attr_kinds.get(name)
        src = None
        try:
            src = ast.unparse(node) if isinstance(node, ast.Attribute) else None
        except Exception:
            pass
        if src and src in self.contract.kinds:
            hint = self.kind_hint(self.contract.kinds[src])
        val = Val(t, kind=hint[0] if hint else None, cls=hint[1] if hint else None,
                  origin=(f"{v.origin}.{name}" if v.origin else None))
        res = self.raising(st, val, [(AttributeError, Eq(t, "v_absent"))], node)
        if hint:
            self.obl("kind", node, res[-1][0], self.kind_pred(hint, t), detail=f"{src or name} is {hint[0]}")
        return res

    def kind_hint(self, k):
        if isinstance(k, tuple):
            return k
        if k in self.spec_names:
            return ("obj", self.spec_names[k])
        return (k, None)

    def kind_pred(self, hint, t):
        kind, cls = hint
        if kind == "obj" and cls is not None:
            return f"(and (k_obj {t}) (isinst1 {t} {self.ctab.cid(cls)}))"
        if kind == "num":
            return f"(is_num {t})"
        return f"(k_{kind} {t})"

    # ------------------------------------------------------------ calls
    def extend_reading_itself(self, st, n):
        """`xs.extend(e for ... if c and e not in xs)`: CPython appends while the generator runs, so the membership test sees the
        members appended so far.  Evaluating the generator first (as every other generator argument is) would test against the
        old list only.  The idiom is modelled by what it guarantees -- the old list is a prefix, every new member is one of the
        candidates (the generator without the membership test), every candidate is == some member of the result -- and any other
        way of reading the list inside the generator leaves the subset."""
        recv = n.func.value.id
        gen = n.args[0]
        if len(gen.generators) != 1:
            raise OutOfSubset("generator passed to extend reads the list being extended", n)
        g = gen.generators[0]
        elt_dump = ast.dump(gen.elt)
        conj = []
        for c in g.ifs:
            conj.extend(c.values if isinstance(c, ast.BoolOp) and isinstance(c.op, ast.And) else [c])
        rest, hit = [], 0
        for c in conj:
            if isinstance(c, ast.Compare) and len(c.ops) == 1 and isinstance(c.ops[0], ast.NotIn) and isinstance(c.comparators[0], ast.Name) \
                    and c.comparators[0].id == recv and ast.dump(c.left) == elt_dump:
                hit += 1
            else:
                rest.append(c)
        reads = [x for c in rest + [gen.elt, g.iter] for x in ast.walk(c) if isinstance(x, ast.Name) and x.id == recv]
        if hit != 1 or reads:
            raise OutOfSubset("generator passed to extend reads the list being extended", n)
        g2 = ast.comprehension(target=g.target, iter=g.iter, ifs=([ast.BoolOp(op=ast.And(), values=rest)] if len(rest) > 1 else rest), is_async=0)
        cand_node = ast.copy_location(ast.ListComp(elt=gen.elt, generators=[g2]), gen)
        ast.fix_missing_locations(cand_node)
        out = []
        for s, cand in self.ev(st, cand_node):
            if is_exc(cand):
                out.append((s, cand))
                continue
            for s2, cur in self.ev(s, n.func.value):
                if is_exc(cur):
                    out.append((s2, cur))
                    continue
                lr, lc = self.lift(cur), self.lift(cand)
                if lr.kind != "list" or lc.kind != "list":
                    raise OutOfSubset("extend of a non-list", n)
                self.frame_write(s2, lr, lr.origin or recv, n)
                R0, C = f"(lval {asV(lr)})", f"(lval {asV(lc)})"
                r = self.fresh_val("dext", kind="list")
                r.fresh, r.origin = lr.fresh, lr.origin
                R1 = f"(lval {r.t})"
                i, pq = fresh_name("di"), fresh_name("dp")
                src = self.declare_fun(fresh_name("dsrc"), ["Int"], "Int")
                pos = self.declare_fun(fresh_name("dpos"), ["Int"], "Int")
                s2.assume(f"(k_list {r.t})")
                s2.assume(f"(<= (seq.len {R0}) (seq.len {R1}))")
                s2.assume(f"(<= (seq.len {R1}) (+ (seq.len {R0}) (seq.len {C})))")
                s2.assume(f"(forall (({i} Int)) (! (=> (and (<= 0 {i}) (< {i} (seq.len {R0}))) (= (seq.nth {R1} {i}) (seq.nth {R0} {i}))) :pattern ((seq.nth {R1} {i})) :pattern ((seq.nth {R0} {i}))))")
                s2.assume(f"(forall (({i} Int)) (! (=> (and (<= (seq.len {R0}) {i}) (< {i} (seq.len {R1}))) (and (<= 0 ({src} {i})) (< ({src} {i}) (seq.len {C})) "
                          f"(= (seq.nth {R1} {i}) (seq.nth {C} ({src} {i}))))) :pattern ((seq.nth {R1} {i}))))")
                s2.assume(f"(forall (({pq} Int)) (! (=> (and (<= 0 {pq}) (< {pq} (seq.len {C}))) (and (<= 0 ({pos} {pq})) (< ({pos} {pq}) (seq.len {R1})) "
                          f"(or (= (seq.nth {R1} ({pos} {pq})) (seq.nth {C} {pq})) (py_eq (seq.nth {R1} ({pos} {pq})) (seq.nth {C} {pq}))))) :pattern ((seq.nth {C} {pq})) :pattern (({pos} {pq}))))")
                self.trusted_used.add("xs.extend(e for ... if ... and e not in xs): the old list is a prefix of the result, every appended member is one of the "
                                      "candidates, every candidate is identical or == to a member of the result (CPython appends while the generator runs)")
                for s3, _ in self.store_back(s2, n.func.value, r, n):
                    out.append((s3, PyC(None)))
        return out

    def e_Call(self, st, n):
        out = []
        if isinstance(n.func, ast.Attribute) and n.func.attr == "extend" and len(n.args) == 1 and not n.keywords and isinstance(n.args[0], ast.GeneratorExp) \
                and isinstance(n.func.value, ast.Name) and any(isinstance(x, ast.Name) and x.id == n.func.value.id for x in ast.walk(n.args[0])):
            return self.extend_reading_itself(st, n)
        if isinstance(n.func, ast.Attribute) and n.func.attr in ("items", "values", "keys", "get") :
            # x.items() / x.get(k) on a value of statically unknown class: a mapping method (obligation: x is a mapping)
            res = []
            for s, base in self.ev(st, n.func.value):
                if is_exc(base):
                    res.append((s, base))
                elif isinstance(base, Val) and base.cls is None and base.kind in (None, "obj") and base.sort == "V":
                    res.append((s, BM(base, n.func.attr)))
                else:
                    res.extend(self.getattr(s, base, n.func.attr, n.func))
            fpaths = res
        else:
            fpaths = self.ev(st, n.func)
        for s, f in fpaths:
            if is_exc(f):
                out.append((s, f))
                continue
            argnodes = [a.value if isinstance(a, ast.Starred) else a for a in n.args]
            kwnodes = [k.value for k in n.keywords]
            # generator-expression / lambda arguments are passed unevaluated to builtin models
            for s2, vals in self.ev_seq(s, argnodes + kwnodes):
                if is_exc(vals):
                    out.append((s2, vals))
                    continue
                args = []
                for a, v in zip(n.args, vals[:len(argnodes)]):
                    if isinstance(a, ast.Starred):
                        args.extend(self.unpack_star(v, n))
                    else:
                        args.append(v)
                kwargs = {}
                for k, v in zip(n.keywords, vals[len(argnodes):]):
                    if k.arg is None:
                        kwargs.update(self.unpack_kwargs(v, n))
                    else:
                        kwargs[k.arg] = v
                out.extend(self.call(s2, f, args, kwargs, n))
        return out

    def unpack_star(self, v, node):
        if isinstance(v, PyList):
            return list(v.items)
        if isinstance(v, PyC) and isinstance(v.obj, (tuple, list)):
            return [PyC(x) for x in v.obj]
        lv = self.lift(v)
        if lv.kind in ("list", "tuple"):
            return [StarVal(lv)]
        raise OutOfSubset("*args of unknown length", node)

    def unpack_kwargs(self, v, node):
        if isinstance(v, PyC) and isinstance(v.obj, dict):
            return {k: PyC(x) for k, x in v.obj.items()}
        if isinstance(v, dict):
            return dict(v)
        if isinstance(v, SDict) and v.term is None and all(cnd == TRUE for cnd, _ in v.entries.values()):
            return {kk: val for kk, (cnd, val) in v.entries.items()}
        if isinstance(v, SDict):
            return {"__symbolic__": self.lift(v)}
        if isinstance(v, Val) and v.kind == "dict":
            return {"__symbolic__": v}
        raise OutOfSubset("**kwargs of unknown keys", node)

    def call(self, st, f, args, kwargs, node):
        if isinstance(f, Closure):
            return self.inline_closure(st, f, args, kwargs, node)
        if isinstance(f, BM):
            recv = f.recv
            if f.func is not None:
                selfcls = getattr(recv, "cls", None)
                if isinstance(recv, PyC) and isinstance(recv.obj, type):
                    selfcls = recv.obj
                return self.call_function(st, f.func, [recv] + args, kwargs, node, selfcls=selfcls)
            return self.builtin_method(st, recv, f.name, args, kwargs, node)
        if isinstance(f, PyC):
            o = f.obj
            h = self.builtin_models().get(id(o))
            if h is not None:
                return h(st, args, kwargs, node)
            if o is _object_init:
                return [(st, PyC(None))]
            import itertools as _it
            if getattr(o, "__self__", None) is _it.chain and getattr(o, "__name__", "") == "from_iterable" and len(args) == 1 and not kwargs:
                return self.b_chain_from_iterable(st, args, kwargs, node)
            import inspect as _insp
            if (o is _insp.signature or type(getattr(o, "__self__", None)).__name__ in ("mappingproxy", "Signature", "Parameter", "odict_values", "dict_values")) \
                    and all(isinstance(a, PyC) for a in args) and not kwargs:
                # reflection on the live classes (signatures of constructors): evaluated, not modelled
                self.trusted_used.add("inspect.signature of the live constructors is a reflection constant")
                return [(st, PyC(o(*[a.obj for a in args])))]
            if isinstance(o, type):
                return self.construct(st, o, args, kwargs, node)
            if inspect.isfunction(o):
                if key_of_function(o) in self.concrete_eval and all(isinstance(a, PyC) for a in args) and not kwargs:
                    self.trusted_used.add(f"reflection constant: {key_of_function(o)} evaluated on the live classes")
                    return [(st, PyC(o(*[a.obj for a in args])))]
                return self.call_function(st, o, args, kwargs, node)
            if inspect.ismethod(o):
                return self.call_function(st, o.__func__, [PyC(o.__self__)] + args, kwargs, node)
            if type(o).__module__.startswith("statham") and inspect.isfunction(_static(type(o), "__call__")):
                return self.call_function(st, _static(type(o), "__call__"), [self.named_object(o)] + args, kwargs, node, selfcls=type(o))
            raise OutOfSubset(f"call of constant {o!r:.50}", node)
        if isinstance(f, (Val, SymObj)):
            return self.dynamic_call(st, f, args, kwargs, node)
        raise OutOfSubset(f"call of {type(f).__name__}", node)

    def dynamic_call(self, st, f, args, kwargs, node):
        """Call of a callable *value*: the function's contract says which contract governs it."""
        src = ast.unparse(node.func)
        key = self.contract.calls.get(src)
        cls = getattr(f, "cls", None)
        if key is None and cls is not None and cls.__module__.startswith("statham"):
            d = _static(cls if not isinstance(f, SymObj) else f.cls, "__call__")
            if inspect.isfunction(d):
                return self.call_function(st, d, [f] + args, kwargs, node, selfcls=cls)
        if key == "<callable1>":
            fv = self.lift(f)
            self.declare_fun("call1", ["V", "V"], "V")
            self.trusted_used.add("registered format checkers are total pure predicates: call1(f, x) (uninterpreted), no exception, no effect")
            return [(st, Val(f"(call1 {asV(fv)} {asV(self.lift(args[0]))})"))]
        if key is None:
            raise OutOfSubset(f"dynamic call `{src}` has no `calls` entry in the contract", node)
        c = lookup(key)
        if c is None:
            raise OutOfSubset(f"no contract {key}", node)
        return self.call_by_contract(st, c, None, [f] + args, kwargs, node)

    # ---- by contract
    def call_function(self, st, fn, args, kwargs, node, selfcls=None, setter=False):
        fn = getattr(fn, "__func__", fn)
        wrapped = getattr(fn, "__wrapped__", None)
        key = key_of_function(fn) + ("@setter" if setter else "")
        inst = selfcls.__name__ if selfcls is not None else None
        if inst is not None and args and isinstance(args[0], Val) and not isinstance(args[0], PyC) and args[0].t not in self.exact_class:
            # the receiver's class is only known up to subclassing: a per-class instantiation does not apply;
            # only a caller's-view contract (inst=None) covers dynamic dispatch
            inst = None
            if lookup(key, None) is None and any(k == key for k, _ in REG):
                raise OutOfSubset(f"dynamic dispatch on a receiver of inexact class needs a caller's-view contract: {key}", node)
        c = lookup(key, inst)
        if c is None or c.inst is None:
            for a in args:
                if isinstance(a, PyC) and isinstance(a.obj, str) and lookup(key, a.obj) is not None and lookup(key, a.obj).inst == a.obj:
                    c = lookup(key, a.obj)
                    break
                if isinstance(a, PyC) and isinstance(a.obj, type) and lookup(key, a.obj.__name__) is not None and lookup(key, a.obj.__name__).inst == a.obj.__name__:
                    c = lookup(key, a.obj.__name__)        # instantiation per class-object argument (kinds "class:K")
                    break
        if c is None:
            if key in self.inline_keys or (key.endswith(".__init__") and key.startswith("statham.")):
                fi = find_function(key)
                clo = Closure(fi.node, {}, fi.glob, selfcls=selfcls, name=key, defcls=fi.cls)
                return self.inline_closure(st, clo, args, kwargs, node)
            raise OutOfSubset(f"needs contract: {key}" + (f"[{inst}]" if inst else ""), node)
        return self.call_by_contract(st, c, fn, args, kwargs, node)

    def bind_params(self, fdef_args, args, kwargs, node, defaults_env=None, glob=None):
        """Bind call arguments to parameter names of an ast.arguments. Returns dict name->value."""
        a = fdef_args
        env = {}
        pos = [p.arg for p in a.posonlyargs + a.args]
        args = list(args)
        for name in pos:
            if args:
                if isinstance(args[0], StarVal):
                    raise OutOfSubset("symbolic *args bound to a named parameter", node)
                env[name] = args.pop(0)
        if a.vararg:
            if any(isinstance(x, StarVal) for x in args):
                parts = []
                for x in args:
                    if isinstance(x, StarVal):
                        parts.append(f"(seqof {asV(x.val)})")
                    else:
                        parts.append(f"(seq.unit {asV(self.lift(x))})")
                t = parts[0] if len(parts) == 1 else "(seq.++ " + " ".join(parts) + ")"
                env[a.vararg.arg] = Val(f"(v_tuple {t})", kind="tuple", fresh=TRUE)
            else:
                env[a.vararg.arg] = PyList(args, "tuple")
            args = []
        if args:
            raise OutOfSubset("too many positional arguments", node)
        kwargs = dict(kwargs)
        for name in pos + [p.arg for p in a.kwonlyargs]:
            if name in kwargs:
                if name in env:
                    raise OutOfSubset("duplicate argument", node)
                env[name] = kwargs.pop(name)
        if a.kwarg:
            if set(kwargs) == {"__symbolic__"}:
                env[a.kwarg.arg] = kwargs["__symbolic__"]
            else:
                env[a.kwarg.arg] = dict(kwargs)
            kwargs = {}
        if kwargs:
            raise OutOfSubset(f"unexpected keyword arguments {list(kwargs)}", node)
        # defaults
        ndef = len(a.defaults)
        for name, d in zip(pos[len(pos) - ndef:], a.defaults):
            if name not in env:
                env[name] = self.eval_default(d, glob)
        for p, d in zip(a.kwonlyargs, a.kw_defaults):
            if p.arg not in env and d is not None:
                env[p.arg] = self.eval_default(d, glob)
        for name in pos + [p.arg for p in a.kwonlyargs]:
            if name not in env:
                raise OutOfSubset(f"missing argument {name}", node)
        return env

    def eval_default(self, d, glob):
        if isinstance(d, ast.Constant):
            return PyC(d.value)
        code = compile(ast.Expression(d), "<default>", "eval")
        return PyC(eval(code, glob or {}))

    def call_by_contract(self, st, c, fn, args, kwargs, node):
        fi = find_function(c.key)
        env = self.bind_params(fi.node.args, args, kwargs, node, glob=fi.glob)
        self.called_contracts.add(c.name)
        if c.trusted:
            self.trusted_used.add(f"assumed contract: {c.name} ({c.note})" if c.note else f"assumed contract: {c.name}")
        sp = SpecEval(self, env, glob=fi.glob)
        saved_spec_state = self.spec_state
        self.spec_state = st
        try:
            return self._call_by_contract(st, c, fn, env, sp, node)
        finally:
            self.spec_state = saved_spec_state

    def _call_by_contract(self, st, c, fn, env, sp, node):
        # precondition
        pre = sp.compile_bool(c.requires)
        self.obl("pre", node, st, pre, detail=f"requires of {c.name}: {c.requires}")
        st = st.assume(pre, fact=True)
        out = []
        noraise = []
        # exceptional outcomes
        for names, cond in c.raises + c.may_raise:
            ct = sp.compile_bool(cond)
            for nm in names:
                ecls = self.exc_class(nm)
                if ct == FALSE:
                    continue
                if self.exc_expected(ecls):
                    s2 = st.fork().assume(ct)
                    if c.ghost.get("defines_raise"):
                        s2.assume(sp.compile_bool(c.ghost["defines_raise"]), fact=True)
                    out.append((s2, Exc(ecls, node=node)))
                elif (names, cond) in c.raises:
                    self.obl("safe", node, st, Not(ct), detail=f"{nm} from {c.name}")
                else:
                    self.obl("safe", node, st, Not(ct), detail=f"{nm} (may) from {c.name}")
            if (names, cond) in c.raises:
                noraise.append(Not(ct))
            else:
                # may_raise on an unexpected exception: the safe obligation above excluded it
                if not all(self.exc_expected(self.exc_class(nm)) for nm in names):
                    noraise.append(Not(ct))
        # normal outcome
        s3 = st.fork()
        for t in noraise:
            s3.assume(t)
        if c.ghost.get("defines_raise"):
            # spec vocabulary *defined* by this callee's outcome (e.g. csem(e, v): e.construct(v, .) returns normally)
            s3.assume(Not(sp.compile_bool(c.ghost["defines_raise"])), fact=True)
            self.trusted_used.add(f"definition: `{c.ghost['defines_raise']}` names the exceptional outcome of {c.name} "
                                  f"(assumes that outcome is a function of the arguments between writes)")
        if c.ghost.get("function"):
            # functional contract: the result *is* this term of the arguments (no fresh symbol)
            res = sp.ev(ast.parse(c.ghost["function"], mode="eval").body)
            res.kind = c.result_kind or res.kind
            if c.result_cls:
                res.cls = self.spec_names[c.result_cls]
            if c.ghost.get("function_facts"):
                # the (verified) ensures clause holds of the functional result too
                sp2 = SpecEval(self, {**env, "result": res}, old_env=env, glob=find_function(c.key).glob)
                s3.assume(sp2.compile_bool(c.returns), fact=True)
        else:
            env2 = dict(env)
            for m in c.modifies:
                tv = env.get(m)
                if isinstance(tv, PyList) or (isinstance(tv, Val) and tv.kind in ("list", "set", "dict")):
                    # a container argument the callee mutates: new (unknown) contents, here and in every local bound to it
                    nv = self.fresh_val("mut_" + m, kind=tv.kind if isinstance(tv, Val) else tv.kind)
                    nv.fresh = getattr(tv, "fresh", FALSE) if isinstance(tv, Val) else TRUE
                    nv.origin = getattr(tv, "origin", None)
                    s3.assume(f"(k_{nv.kind} {nv.t})", fact=True)
                    env2[m] = nv
                    newenv = dict(s3.env)
                    for nm, w in s3.env.items():
                        if w is tv:
                            newenv[nm] = nv
                            if hasattr(self, "container_touched"):
                                self.container_touched.add(nm)
                    s3.env = newenv
                elif isinstance(tv, SDict):
                    raise OutOfSubset(f"callee {c.name} mutates a static-key dict argument", node)
            res = self.contract_result(s3, c, env2, node, old_env=env)
        out.append((s3, res))
        # frame: the callee's modifies must be covered here
        for m in c.modifies:
            self.frame_write_via_callee(s3, c, m, env, node)
        return out

    def contract_result(self, st, c, env, node, old_env=None):
        pre_state = st.fork()
        old_env = old_env if old_env is not None else env
        # a callee that modifies a fresh object passed to it: the attributes its postcondition talks about
        # get new (unknown) values, which the postcondition then constrains
        for m in c.modifies:
            root = m.split(".")[0]
            target = env.get(root)
            if isinstance(target, SymObj):
                if target.term is not None:
                    raise OutOfSubset(f"callee {c.name} modifies a fresh object after it escaped into an SMT value", node)
                names = set(c.ghost.get("sets", []))
                try:
                    for clause in [c.returns]:
                        for nd in ast.walk(ast.parse(clause, mode="eval")):
                            if isinstance(nd, ast.Attribute) and isinstance(nd.value, ast.Name) and nd.value.id == root:
                                names.add(nd.attr)
                except SyntaxError:
                    pass
                for a in sorted(names):
                    self.oset(st, target, a, self.fresh_val("attr_" + a))
            elif isinstance(target, Val) and (target.kind == "obj" or target.cls is not None or m == root):
                # a pre-existing object modified by the callee: the attributes its postcondition mentions get new heap
                # versions at that object (the postcondition then constrains them); remembered for the frame obligation
                names = set(c.ghost.get("sets", []))
                try:
                    for nd in ast.walk(ast.parse(c.returns, mode="eval")):
                        if isinstance(nd, ast.Attribute) and isinstance(nd.value, ast.Name) and nd.value.id == root:
                            names.add(nd.attr)
                except SyntaxError:
                    pass
                rec = []
                for a in sorted(names):
                    old_fn = self.cur_attr(st, a)
                    nv = self.fresh_val("hv_" + a)
                    self.heap_store(st, a, asV(target), nv.t)
                    rec.append((a, f"({old_fn} {asV(target)})", f"({self.cur_attr(st, a)} {asV(target)})"))
                self.callee_writes[(id(c), root)] = rec
        if c.result_cls:
            rcls = self.spec_names[c.result_cls]
        else:
            rcls = None
        self.spec_state = st
        res = self.fresh_val("ret", kind=c.result_kind, cls=rcls)
        if c.ghost.get("result_fresh"):
            res.fresh = TRUE
        sp = SpecEval(self, {**env, "result": res}, old_env=old_env, glob=find_function(c.key).glob, old_state=pre_state)
        if c.ghost.get("result_fresh_unless"):
            res.fresh = Not(sp.compile_bool(c.ghost["result_fresh_unless"]))
        post = sp.compile_bool(c.returns)
        st.assume(post, fact=True)
        if rcls is not None:
            st.assume(f"(and (k_obj {res.t}) (= (class_of (oid {res.t})) {self.ctab.cid(rcls)}))", fact=True)
        for extra in c.assume:
            st.assume(sp.compile_bool(extra), fact=True)
            self.trusted_used.add(f"definition assumed at call sites of {c.name}: `{extra}` (names the callee's result; assumes it is a function of the "
                                  f"arguments between writes)")
        return res

    def exc_class(self, name):
        c = self.spec_names.get(name) or getattr(builtins, name, None)
        if c is None:
            raise OutOfSubset(f"unknown exception class {name}")
        return c

    # ---- construction
    def construct(self, st, cls, args, kwargs, node):
        from statham.schema.constants import NotPassed
        if cls is NotPassed:
            return [(st, Val("v_np", kind="np"))]
        if issubclass(cls, BaseException):
            so = SymObj(cls, {"args": PyList(args, "tuple")})
            return [(st, so)]
        if issubclass(cls, tuple) and hasattr(cls, "_fields"):
            # typing.NamedTuple: a record of its fields
            vals = dict(zip(cls._fields, args))
            for k, v in kwargs.items():
                vals[k] = v
            for f in cls._fields:
                if f not in vals:
                    if f in cls._field_defaults:
                        vals[f] = PyC(cls._field_defaults[f])
                    else:
                        raise OutOfSubset(f"missing field {f} of {cls.__name__}", node)
            return [(st, SymObj(cls, vals))]
        if not cls.__module__.startswith("statham"):
            raise OutOfSubset(f"constructor of {cls.__name__}", node)
        new = _static(cls, "__new__")
        if new is not None and not (new is object.__new__ or getattr(new, "__objclass__", None) is object
                                    or isinstance(new, staticmethod) and new.__func__ is object.__new__) \
                and not inspect.isbuiltin(new):
            f = new.__func__ if isinstance(new, staticmethod) else new
            if inspect.isfunction(f):
                return self.call_function(st, f, [PyC(cls)] + args, kwargs, node, selfcls=cls)
        so = SymObj(cls, args=(args, kwargs))
        init = _static(cls, "__init__")
        if (init is None or not inspect.isfunction(init)) and issubclass(cls, dict) and not args and set(kwargs) == {"__symbolic__"}:
            args, kwargs = [kwargs["__symbolic__"]], {}
        if (init is None or not inspect.isfunction(init)) and issubclass(cls, dict) and len(args) == 1 and not kwargs:
            lv = self.lift(args[0])
            so.attrs["__dictview__"] = Val(self.as_dict(asV(lv)), kind="dict")
            return [(st, so)]
        if init is None or not inspect.isfunction(init):
            if args or kwargs:
                raise OutOfSubset(f"constructor of {cls.__name__} with arguments but no python __init__", node)
            return [(st, so)]
        out = []
        for s, r in self.call_function(st, init, [so] + args, kwargs, node, selfcls=cls):
            out.append((s, r if is_exc(r) else so))
        return out

    def as_dict(self, t):
        """The mapping held by a value that is a dict or an object of a dict subclass."""
        f = self.declare_fun("obj_dict", ["V"], "V")
        if t in self.escaped_objs:
            so = self.escaped_objs[t]
            dv = self.oattrs(getattr(self, "spec_state", None), so).get("__dictview__")
            if dv is not None:
                return asV(dv)
        return f"(ite (k_dict {t}) {t} ({f} {t}))"

    # ---- inlining of closures / lambdas / nested defs
    def inline_closure(self, st, clo, args, kwargs, node):
        if self.call_depth > 12:
            raise OutOfSubset("inline depth", node)
        n = clo.node
        env = dict(clo.env) if clo.env is not None else {}
        env.update(self.bind_params(n.args, args, kwargs, node, glob=clo.glob))
        saved_env, saved_glob, saved_catch = st.env, self.cur_glob, self.catch_stack
        saved_defcls = self.cur_defcls
        if clo.defcls is not None:
            self.cur_defcls = clo.defcls
        s0 = st.fork()
        s0.env = env
        self.cur_glob = clo.glob
        self.call_depth += 1
        self.catch_stack = list(saved_catch)
        try:
            out = []
            if isinstance(n, ast.Lambda):
                for s, v in self.ev(s0, n.body):
                    s.env = saved_env
                    out.append((s, v))
            else:
                is_gen = any(isinstance(x, (ast.Yield, ast.YieldFrom)) for x in ast.walk(n))
                if is_gen:
                    s0.env = {**s0.env, "__yield__": PyList([], "list")}
                for s, sig in self.exec_block(s0, n.body):
                    ylist = s.env.get("__yield__", PyList([], "list"))
                    s.env = saved_env
                    if is_gen and (sig is None or sig[0] == "return"):
                        out.append((s, ylist))
                    elif sig is None:
                        out.append((s, PyC(None)))
                    elif sig[0] == "return":
                        out.append((s, sig[1]))
                    elif sig[0] == "raise":
                        out.append((s, sig[1]))
                    else:
                        raise OutOfSubset("break/continue escaping a function", node)
            return out
        finally:
            self.cur_glob = saved_glob
            self.cur_defcls = saved_defcls
            self.call_depth -= 1
            self.catch_stack = saved_catch

    # ------------------------------------------------------------ comprehensions
    def e_ListComp(self, st, n):
        return self.comprehension(st, n, "list")

    def e_GeneratorExp(self, st, n):
        return self.comprehension(st, n, "list")

    def e_SetComp(self, st, n):
        return self.comprehension(st, n, "set")

    def e_DictComp(self, st, n):
        return self.comprehension(st, n, "dict")

    def comprehension(self, st, n, kind):
        if len(n.generators) != 1:
            return self.nested_comprehension(st, n, kind)
        g = n.generators[0]
        out = []
        for s, it in self.ev(st, g.iter):
            if is_exc(it):
                out.append((s, it))
                continue
            items = self.static_items(it)
            if items is not None:
                out.extend(self.comp_unrolled(s, n, g, items, kind))
            else:
                out.extend(self.comp_symbolic(s, n, g, it, kind))
        return out

    def nested_comprehension(self, st, n, kind):
        """[e for x in <static> for y in f(x) if c]: the outer generator is unrolled; inner results are concatenated."""
        if kind != "list" or len(n.generators) != 2 or n.generators[0].ifs:
            raise OutOfSubset("comprehension with several generators", n)
        g0 = n.generators[0]
        out = []
        for s, it in self.ev(st, g0.iter):
            if is_exc(it):
                out.append((s, it))
                continue
            items = self.static_items(it)
            if items is None:
                raise OutOfSubset("nested comprehension over a symbolic outer sequence", n)
            inner = ast.ListComp(elt=n.elt, generators=[n.generators[1]])
            ast.copy_location(inner, n)
            ast.fix_missing_locations(inner)
            paths = [(s, [])]
            for item in items:
                nxt = []
                for s1, acc in paths:
                    if is_exc(acc):
                        nxt.append((s1, acc))
                        continue
                    s1 = s1.fork()
                    self.assign_target(s1, g0.target, item, n)
                    for s2, v in self.comprehension(s1, inner, "list"):
                        nxt.append((s2, v if is_exc(v) else acc + [v]))
                paths = nxt
            for s1, acc in paths:
                if is_exc(acc):
                    out.append((s1, acc))
                    continue
                if all(isinstance(x, PyList) for x in acc):
                    out.append((s1, PyList([y for x in acc for y in x.items], "list")))
                else:
                    parts = [f"(seqof {asV(self.lift(x))})" for x in acc]
                    r = self.named_concat(s1, [("seq", p) for p in parts])
                    out.append((s1, r))
        return out

    def static_items(self, it):
        if isinstance(it, PyList):
            return list(it.items)
        if isinstance(it, PyC) and isinstance(it.obj, (tuple, list)):
            return [PyC(x) for x in it.obj]
        if isinstance(it, PyC) and type(it.obj).__name__ in ("odict_values", "dict_values", "mappingproxy", "dict_keys", "odict_keys"):
            return [PyC(x) for x in list(it.obj)]
        if isinstance(it, PyC) and isinstance(it.obj, (set, frozenset)):
            # iteration order of a set is arbitrary: the executor takes one order (by name) and records the fact;
            # order-independence of the outputs is the det@setloop obligation of C09
            self.set_iterations.append(sorted((getattr(x, "__name__", repr(x)) for x in it.obj)))
            return [PyC(x) for x in sorted(it.obj, key=lambda x: getattr(x, "__name__", repr(x)))]
        if isinstance(it, dict):
            return None
        return None

    def assign_target(self, st, target, value, node):
        """Bind a (possibly tuple) target in st.env. Values may be python-side."""
        if isinstance(target, ast.Name):
            k = self.contract.kinds.get(target.id) if isinstance(value, Val) and value.sort == "V" and value.cls is None and value.kind is None else None
            if k:
                hint = self.kind_hint(k)
                self.obl("kind", node, st, self.kind_pred(hint, value.t), detail=f"loop variable {target.id} is {k}")
                st.assume(self.kind_pred(hint, value.t), fact=True)
                value = Val(value.t, "V", value.fresh, hint[0], hint[1], value.origin)
            st.env[target.id] = value
            return
        if isinstance(target, (ast.Tuple, ast.List)) and any(isinstance(t, ast.Starred) for t in target.elts):
            items = self.static_items(value)
            if items is None:
                raise OutOfSubset("starred assignment from symbolic sequence", node)
            k = next(i for i, t in enumerate(target.elts) if isinstance(t, ast.Starred))
            after = len(target.elts) - k - 1
            if len(items) < len(target.elts) - 1:
                raise OutOfSubset("not enough values to unpack", node)
            for t, v in zip(target.elts[:k], items[:k]):
                self.assign_target(st, t, v, node)
            self.assign_target(st, target.elts[k].value, PyList(items[k:len(items) - after], "list"), node)
            for t, v in zip(target.elts[k + 1:], items[len(items) - after:] if after else []):
                self.assign_target(st, t, v, node)
            return
        if isinstance(target, (ast.Tuple, ast.List)):
            if isinstance(value, PyList) and len(value.items) == len(target.elts):
                for t, v in zip(target.elts, value.items):
                    self.assign_target(st, t, v, node)
                return
            if isinstance(value, PyC) and isinstance(value.obj, (tuple, list)) and len(value.obj) == len(target.elts):
                for t, v in zip(target.elts, value.obj):
                    self.assign_target(st, t, PyC(v), node)
                return
            lv = self.lift(value)
            if any(isinstance(t, ast.Starred) for t in target.elts):
                raise OutOfSubset("starred assignment from symbolic sequence", node)
            for i, t in enumerate(target.elts):
                self.assign_target(st, t, Val(f"(seq.nth (seqof {asV(lv)}) {i})"), node)
            return
        raise OutOfSubset("assignment target", node)

    def comp_elt(self, s, n, kind):
        """Evaluate the element (or key/value) of a comprehension in state s."""
        if kind == "dict":
            res = []
            for s2, vals in self.ev_seq(s, [n.key, n.value]):
                if is_exc(vals):
                    res.append((s2, vals))
                else:
                    res.append((s2, PyList(vals, "tuple")))
            return res
        return self.ev(s, n.elt)

    def comp_filter(self, s, g):
        """Evaluate the `if` clauses; returns list of (state, cond Bool term | Exc)."""
        paths = [(s, TRUE)]
        for cnd in g.ifs:
            nxt = []
            for s1, acc in paths:
                if is_exc(acc):
                    nxt.append((s1, acc))
                    continue
                for s2, v in self.ev(s1, cnd):
                    nxt.append((s2, v if is_exc(v) else And(acc, self.truth(v))))
            paths = nxt
        return paths

    def comp_unrolled_dict(self, st, n, g, items):
        """{k: v for x in <static items> if c}: a static-key dict with a presence condition per key (no path forking)."""
        s = st.fork()
        ent = {}
        for item in items:
            s.env = dict(s.env)
            self.assign_target(s, g.target, item, n)
            fp = self.comp_filter(s, g)
            if len(fp) != 1 or is_exc(fp[0][1]):
                return None
            s, cnd = fp[0]
            if cnd == FALSE:
                continue
            # evaluate key/value under the filter condition (as an assumption that is dropped again afterwards)
            s_in = s.fork().assume(cnd)
            kv = self.ev_seq(s_in, [n.key, n.value])
            if len(kv) != 1 or is_exc(kv[0][1]):
                return None
            s2, (kk, vv) = kv[0]
            if not (isinstance(kk, PyC) and isinstance(kk.obj, str)):
                return None
            if len(s2.pc) != len(s_in.pc):
                extra = [t for t in s2.pc[len(s_in.pc):] if t not in s2.facts]
                if extra:
                    return None
            ent[kk.obj] = (cnd, vv)
        for k in self.target_names(g.target):
            if k in st.env:
                s.env[k] = st.env[k]
            else:
                s.env.pop(k, None)
        return [(s, SDict(ent))]

    def comp_unrolled_condlist(self, st, n, g, items):
        """[e for x in <static items> if c]: a conditional-append list with one entry per item (no path forking).
        Used when every filter/element evaluation stays on one path and adds no path condition of its own."""
        s = st.fork()
        ent = []
        for item in items:
            s.env = dict(s.env)
            self.assign_target(s, g.target, item, n)
            fp = self.comp_filter(s, g)
            if len(fp) != 1 or is_exc(fp[0][1]):
                return None
            s, cnd = fp[0]
            if cnd == FALSE:
                continue
            s_in = s.fork().assume(cnd)
            ev = self.comp_elt(s_in, n, "list")
            if len(ev) != 1 or is_exc(ev[0][1]):
                return None
            s2, vv = ev[0]
            if [t for t in s2.pc[len(s_in.pc):] if t not in s2.facts]:
                return None
            ent.append((cnd, vv))
        for k in self.target_names(g.target):
            if k in st.env:
                s.env[k] = st.env[k]
            else:
                s.env.pop(k, None)
        if all(cnd == TRUE for cnd, _ in ent):
            return [(s, PyList([v for _, v in ent], "list"))]
        return [(s, CondList(ent))]

    def comp_unrolled(self, st, n, g, items, kind):
        if kind == "dict":
            r = self.comp_unrolled_dict(st, n, g, items)
            if r is not None:
                return r
        if kind == "list" and g.ifs and len(items) > 3:
            r = self.comp_unrolled_condlist(st, n, g, items)
            if r is not None:
                return r
        paths = [(st, [])]
        for item in items:
            nxt = []
            for s, acc in paths:
                if is_exc(acc):
                    nxt.append((s, acc))
                    continue
                s = s.fork()
                self.assign_target(s, g.target, item, n)
                for s1, c in self.comp_filter(s, g):
                    if is_exc(c):
                        nxt.append((s1, c))
                        continue
                    t, f = self.branch(s1, c)
                    if f is not None:
                        nxt.append((f, acc))
                    if t is not None:
                        for s2, v in self.comp_elt(t, n, kind):
                            nxt.append((s2, v if is_exc(v) else acc + [v]))
            paths = nxt
        out = []
        for s, acc in paths:
            s.env = {**s.env}
            for k in self.target_names(g.target):
                if k in st.env:
                    s.env[k] = st.env[k]
                else:
                    s.env.pop(k, None)
            if is_exc(acc):
                out.append((s, acc))
            elif kind == "dict":
                out.append((s, self.dict_from_pairs(s, acc, n)))
            else:
                out.append((s, PyList(acc, kind)))
        return out

    def dict_from_pairs(self, st, pairs, node):
        keys = []
        items = []
        for p in pairs:
            k, v = p.items
            lk = self.lift(k)
            items.append(f"(v_pair {asS(lk)} {asV(self.lift(v))})")
            keys.append(asS(lk))
        consts = [k for k in keys if k.startswith('"')]
        if len(consts) != len(keys) or len(set(consts)) != len(consts):
            if len(keys) > 1:
                raise OutOfSubset("dict from pairs with symbolic/duplicate keys", node)
        return Val(f"(v_dict {seq_of_terms(items)})", kind="dict", fresh=TRUE)

    def target_names(self, t):
        if isinstance(t, ast.Name):
            return [t.id]
        return [x for e in t.elts for x in self.target_names(e)]

    def iter_seq_term(self, it, node, st=None):
        """Sequence term iterated by `for x in it` for an SMT-level iterable; returns (seq term, elem builder)."""
        lv = self.lift(it)
        if lv.kind is None and lv.sort == "V" and st is not None:
            # unknown kind: the iteration is in the subset if the value is provably a list or a tuple here
            g = f"(or (k_list {lv.t}) (k_tuple {lv.t}))"
            self.obl("kind", node, st, g, detail="iterated value is a list or a tuple")
            st.assume(g, fact=True)
            sq = f"(seqof {lv.t})"
            return sq, (lambda j: Val(f"(seq.nth {sq} {j})"))
        if lv.kind in ("list", "tuple", "set"):
            sq = f"(seqof {asV(lv)})"
            org0 = (lv.origin + "[*]") if getattr(lv, "origin", None) else None
            return sq, (lambda j: Val(f"(seq.nth {sq} {j})", origin=org0))
        if lv.kind == "dict":
            sq = f"(ditems {asV(lv)})"
            return sq, (lambda j: mkS(f"(pkey (seq.nth {sq} {j}))"))
        org = (lv.origin + "[*]") if getattr(lv, "origin", None) else None      # a member of a container rooted in an input stays rooted there (frame)
        if lv.kind == "dict_items":
            sq = f"(ditems {asV(lv)})"
            return sq, (lambda j: PyList([mkS(f"(pkey (seq.nth {sq} {j}))"), Val(f"(pval (seq.nth {sq} {j}))", origin=org)], "tuple"))
        if lv.kind == "dict_values":
            sq = f"(ditems {asV(lv)})"
            return sq, (lambda j: Val(f"(pval (seq.nth {sq} {j}))", origin=org))
        if lv.kind == "enumerate":
            sq = f"(seqof {asV(lv)})"
            return sq, (lambda j: PyList([mkI(j), Val(f"(seq.nth {sq} {j})")], "tuple"))
        raise OutOfSubset(f"iteration over value of unknown kind ({lv.kind})", node)

    def _strip_facts(self, s1, base_pc, facts, mentions_new):
        keep = tuple(t for i, t in enumerate(s1.pc) if i <= len(base_pc) or not (t in facts and mentions_new(t)))
        s2 = s1.fork()
        s2.pc = keep
        return s2

    def comp_symbolic(self, st, n, g, it, kind):
        """Comprehension over a symbolic sequence: characterised by quantified facts over a generic index."""
        sq, elem = self.iter_seq_term(it, n, st)
        j = self.declare(fresh_name("j"), "Int")
        rng = f"(and (<= 0 {j}) (< {j} (seq.len {sq})))"
        base_pc = st.pc
        ndecl = len(self.decls)
        s = st.fork().assume(rng)
        self.assign_target(s, g.target, elem(j), n)
        fpaths = self.comp_filter(s, g)
        out = []
        normal = []   # (extra pc list, filter cond, value)
        elt_states = []
        self._comp_ndecl = ndecl
        for s1, c in fpaths:
            if is_exc(c):
                s1.env = dict(st.env)
                out.append((s1, c))
                continue
            t, f = self.branch(s1, c)
            if f is not None and c != TRUE:
                normal.append((f.pc[len(base_pc) + 1:], FALSE, None))
            if t is not None:
                for s2, v in self.comp_elt(t, n, kind):
                    if is_exc(v):
                        s2.env = dict(st.env)
                        out.append((s2, v))
                    else:
                        normal.append((s2.pc[len(base_pc) + 1:], TRUE, v))
                        elt_states.append(s2)
                        self._comp_states = getattr(self, "_comp_states", []) + [s2]
        # facts that are consequences of discharged safe/pre obligations or callee postconditions are not
        # conditions on the index: drop them from the per-index conditions
        all_facts = set()
        for st_n in getattr(self, "_comp_states", []):
            all_facts |= st_n.facts
        for s1, v in out:
            all_facts |= s1.facts
        normal = [(tuple(t for t in pcx if t not in all_facts), cnd, v) for pcx, cnd, v in normal]
        out = [(self._strip_facts(s1, base_pc, all_facts, lambda t: True), v) for s1, v in out]
        skolem = False
        if len(self.decls) != ndecl and any(v is not None for _, _, v in normal):
            # element evaluation introduced fresh symbols (callee results): if the element value or the remaining
            # path conditions mention one of them, they depend on j and the closed-form facts are not available
            new_names = []
            for dline in self.decls[ndecl:]:
                parts = dline.replace("(", " ").split()
                if len(parts) >= 2 and parts[0] == "declare-const":
                    new_names.append(parts[1])
            texts = []
            for pcx, cnd, v in normal:
                texts.extend(pcx)
                if v is not None:
                    try:
                        if isinstance(v, PyList):
                            texts.extend(asV(self.lift(x)) for x in v.items)
                        else:
                            texts.append(asV(self.lift(v)))
                    except OutOfSubset:
                        skolem = True
            for s1, v in out:
                texts.extend(s1.pc[len(base_pc) + 1:])
            blob = " ".join(texts)
            if any(_re.search(r"(?<![\w])" + _re.escape(nm) + r"(?![\w])", blob) for nm in new_names):
                skolem = True
        # the normal path: for every index no exceptional path is taken
        s_ok = st.fork()
        q = fresh_name("q")
        exc_conds = [And(*s1.pc[len(base_pc) + 1:]) for s1, v in out]
        def at(term, var):
            return _re.sub(r"(?<![\w])" + _re.escape(j) + r"(?![\w])", var, term)
        if exc_conds:
            any_exc = Or(*exc_conds)
            s_ok.assume(f"(forall (({q} Int)) (=> (and (<= 0 {q}) (< {q} (seq.len {sq}))) {Not(at(any_exc, q))}))")
        # what a callee's contract says about the element computed for index j holds for every index on the normal path, provided it
        # speaks of j only through terms of the arguments (functional contracts); facts about fresh per-call results cannot be generalised
        if self.contract.ghost.get("generalise_comprehension_facts"):
            later = [d.split()[1] for d in self.decls[ndecl:] if d.startswith("(declare-")]
            mentions_j = lambda t: _re.search(r"(?<![\w])" + _re.escape(j) + r"(?![\w])", t) is not None
            for st_n in elt_states:
                conds = [t for t in st_n.pc[len(base_pc) + 1:] if t not in all_facts]
                for t in st_n.pc[len(base_pc) + 1:]:
                    if t in all_facts and mentions_j(t) and not any(_re.search(r"(?<![\w])" + _re.escape(nm) + r"(?![\w])", t) for nm in later):
                        s_ok.assume(f"(forall (({q} Int)) (=> (and (<= 0 {q}) (< {q} (seq.len {sq})) {at(And(*conds), q)}) {at(t, q)}))")
        r = self.fresh_val("comp", kind=kind if kind != "dict" else "dict")
        r.fresh = TRUE
        rs = f"(seqof {r.t})"
        def_mark = len(s_ok.pc)       # everything assumed from here to the return defines r (engine.vc_text drops it when r is unused)
        ctor = {"list": "k_list", "set": "k_set", "dict": "k_dict"}[kind]
        s_ok.assume(f"({ctor} {r.t})")
        if "JSON-INTRO" in (self.contract.lemmas or []) and kind in ("list", "dict"):
            # lemma JSON-INTRO instantiated at this result (the quantified module is not reliably triggered): either the result's
            # members are all JSON values from index 0, or the Skolem index cx points at one that is not; for a dict, lemma
            # DICT-ITEM at that index ties the entry to lookup by its key
            cx = self.declare(fresh_name("jcx"), "Int")
            if kind == "list":
                s_ok.assume(f"(or (is_json_seq (lval {r.t}) 0) (and (<= 0 {cx}) (< {cx} (seq.len (lval {r.t}))) (not (is_json (seq.nth (lval {r.t}) {cx})))))")
            else:
                it_ = f"(seq.nth (ditems {r.t}) {cx})"
                s_ok.assume(f"(or (is_json_vals (ditems {r.t}) 0) (and (<= 0 {cx}) (< {cx} (seq.len (ditems {r.t}))) (not (is_json (pval {it_})))))")
                s_ok.assume(f"(=> (and (dict_wf {r.t}) (<= 0 {cx}) (< {cx} (seq.len (ditems {r.t})))) (and (dhas {r.t} (pkey {it_})) (= (dval {r.t} (pkey {it_})) (pval {it_}))))")
                self.lemma_instances_used.add("DICT-ITEM")
            self.lemma_instances_used.add("JSON-INTRO")
        passes = Or(*[And(*pcx) for pcx, c, v in normal if c == TRUE]) if normal else FALSE
        has_filter = bool(g.ifs)
        key_preserving = False
        if kind == "dict" and not skolem and not g.ifs and isinstance(n.key, ast.Name) and isinstance(g.target, ast.Tuple) \
                and isinstance(g.target.elts[0], ast.Name) and g.target.elts[0].id == n.key.id and self.lift(it).kind == "dict_items":
            key_preserving = True      # {k: f(v) for k, v in d.items()}: item-wise image of d, same keys in the same order
        if kind == "dict" and not skolem and not key_preserving:
            # a dict comprehension is a lookup table: a key is present iff some passing index produces it, and its value
            # is the one produced by the *last* such index (later entries overwrite earlier ones)
            vals = [(And(*pcx), v) for pcx, c_, v in normal if c_ == TRUE]

            def kv(var, which):
                t = None
                for cnd, v in reversed(vals):
                    k_, v_ = v.items
                    vt = asS(self.lift(k_)) if which == 0 else asV(self.lift(v_))
                    t = vt if t is None else Ite(cnd, vt, t)
                return at(t, var) if t is not None else ('""' if which == 0 else "v_none")
            kq, j1, j2 = fresh_name("key"), fresh_name("j"), fresh_name("jj")
            rng = lambda v: f"(and (<= 0 {v}) (< {v} (seq.len {sq})))"
            s_ok.assume(f"(<= (seq.len (ditems {r.t})) (seq.len {sq}))")
            s_ok.assume(f"(dict_wf {r.t})")       # a constructed dict: entries are pairs, keys distinct, values are values
            s_ok.assume(f"(forall (({kq} String)) (! (= (dhas {r.t} {kq}) (exists (({j1} Int)) (and {rng(j1)} {at(passes, j1)} (= {kv(j1, 0)} {kq})))) :pattern ((dhas {r.t} {kq}))))")
            # the producing index as a (Skolem) function of the key: easier for the solvers than an existential under the quantifier
            idx = self.declare_fun(fresh_name("idx"), ["String"], "Int")
            ji = f"({idx} {kq})"
            s_ok.assume(f"(forall (({kq} String)) (! (=> (dhas {r.t} {kq}) (and {rng(ji)} {at(passes, ji)} (= {kv(ji, 0)} {kq}) (= (dval {r.t} {kq}) {kv(ji, 1)}) "
                        f"(forall (({j2} Int)) (=> (and (< {ji} {j2}) (< {j2} (seq.len {sq})) {at(passes, j2)}) (not (= {kv(j2, 0)} {kq})))))) :pattern ((dval {r.t} {kq})) :pattern ((dhas {r.t} {kq}))))")
            # every passing index produces a key of the result, and the producing index recorded for that key is not an earlier one
            j3 = fresh_name("jl")
            s_ok.assume(f"(forall (({j3} Int)) (! (=> (and {rng(j3)} {at(passes, j3)}) (and (dhas {r.t} {kv(j3, 0)}) (>= ({idx} {kv(j3, 0)}) {j3}))) :pattern ((seq.nth {sq} {j3}))))")
            self.trusted_used.add("dict comprehension: the result is a well-formed dict; key present iff produced by a passing index; value from the last such index (library semantics of dict construction)")
            self.def_groups[r.t] = set(s_ok.pc[def_mark:])
            out.append((s_ok, r))
            return out
        if skolem:
            s_ok.assume(f"(<= (seq.len {rs}) (seq.len {sq}))")
            if not has_filter:
                s_ok.assume(f"(= (seq.len {rs}) (seq.len {sq}))")
            self.notes.append(f"comprehension at L{n.lineno}: element depends on callee results; only length facts kept")
        else:
            vals = [(And(*pcx), v) for pcx, c, v in normal if c == TRUE]
            def elt_term(var):
                t = None
                for cnd, v in reversed(vals):
                    if kind == "dict":
                        k_, v_ = v.items
                        vt = f"(v_pair {asS(self.lift(k_))} {asV(self.lift(v_))})"
                    else:
                        vt = asV(self.lift(v))
                    t = vt if t is None else Ite(cnd, vt, t)
                return at(t, var) if t is not None else "v_none"
            s_ok.assume(f"(<= (seq.len {rs}) (seq.len {sq}))")
            if key_preserving:
                s_ok.assume(f"(=> (dict_wf {asV(self.lift(it))}) (dict_wf {r.t}))")
                self.trusted_used.add("{k: f(v) for k, v in d.items()} has d's keys in d's order (well-formedness preserved)")
            if not has_filter and kind != "set":
                s_ok.assume(f"(= (seq.len {rs}) (seq.len {sq}))")
                s_ok.assume(f"(forall (({q} Int)) (! (=> (and (<= 0 {q}) (< {q} (seq.len {sq}))) (= (seq.nth {rs} {q}) {elt_term(q)})) :pattern ((seq.nth {rs} {q}))))")
                self.trusted_used.add("map comprehension: len(r)=len(xs), r[j]=f(xs[j]) (List.length_map, List.getElem_map)")
            else:
                pq = at(passes, q)
                lean = self.contract.ghost.get("filter_facts") == "membership"
                if not lean:
                    s_ok.assume(Eq(f"(= (seq.len {rs}) 0)", f"(forall (({q} Int)) (=> (and (<= 0 {q}) (< {q} (seq.len {sq}))) {Not(pq)}))"))
                    s_ok.assume(Eq(f"(= (seq.len {rs}) (seq.len {sq}))" if kind != "set" else TRUE, f"(forall (({q} Int)) (=> (and (<= 0 {q}) (< {q} (seq.len {sq}))) {pq}))") if kind != "set" else TRUE)
                    # every member of the result comes from a passing index
                    p = fresh_name("p")
                    index_only = self.contract.ghost.get("filter_facts") == "index"    # profile without the two member-image facts
                    # (source / position indices as Skolem functions rather than existentials under the quantifier)
                    srcf = self.declare_fun(fresh_name("fsrc"), ["Int"], "Int")
                    p = f"({srcf} {q})"
                    (s_ok.assume if not index_only else (lambda t_: None))(f"(forall (({q} Int)) (! (=> (and (<= 0 {q}) (< {q} (seq.len {rs}))) (and (<= 0 {p}) (< {p} (seq.len {sq})) {at(passes, p)} (= (seq.nth {rs} {q}) {elt_term(p)}))) :pattern ((seq.nth {rs} {q}))))")
                    # the first member is the image of the first passing index
                    first = fresh_name("first")
                    self.declare(first, "Int")
                    s_ok.assume(f"(=> (> (seq.len {rs}) 0) (and (<= 0 {first}) (< {first} (seq.len {sq})) {at(passes, first)} (= (seq.nth {rs} 0) {elt_term(first)}) (forall (({q} Int)) (=> (and (<= 0 {q}) (< {q} {first})) {Not(pq)}))))")
                    # every passing index contributes a member
                    pp, qq = fresh_name("pp"), fresh_name("qq")
                    posf = self.declare_fun(fresh_name("fpos"), ["Int"], "Int")
                    qq = f"({posf} {pp})"
                    (s_ok.assume if not index_only else (lambda t_: None))(f"(forall (({pp} Int)) (! (=> (and (<= 0 {pp}) (< {pp} (seq.len {sq})) {at(passes, pp)}) (and (<= 0 {qq}) (< {qq} (seq.len {rs})) (= (seq.nth {rs} {qq}) {elt_term(pp)}))) :pattern ((seq.nth {sq} {pp})) :pattern ({qq})))")
                # membership form (identity element): a member of the source that passes is a member of the result
                et = elt_term(j)
                src_elem = f"(seq.nth {sq} {j})"
                if kind == "list" and et == src_elem:
                    x = fresh_name("x")
                    px = at(passes, j).replace(src_elem, x).replace(f"(< {j} (seq.len {sq}))", "true").replace(f"(<= 0 {j})", "true")
                    if not _re.search(r"(?<![\w])" + _re.escape(j) + r"(?![\w])", px):
                        qd = fresh_name("qd")
                        s_ok.assume(f"(forall (({qd} Int)) (! (=> (and (<= 0 {qd}) (< {qd} (seq.len {rs}))) {px.replace(x, f'(seq.nth {rs} {qd})')}) :pattern ((seq.nth {rs} {qd}))))")
                        s_ok.assume(f"(forall (({x} V)) (! (= (ismem {mseq(rs)} {x}) (and (ismem {mseq(sq)} {x}) {px})) :pattern ((ismem {mseq(rs)} {x})) :pattern ((ismem {mseq(sq)} {x}))))")
                # at least two members iff two distinct indices pass
                p1, p2 = fresh_name("p1"), fresh_name("p2")
                if not lean:
                  s_ok.assume(Eq(f"(>= (seq.len {rs}) 2)", f"(exists (({p1} Int) ({p2} Int)) (and (<= 0 {p1}) (< {p1} {p2}) (< {p2} (seq.len {sq})) {at(passes, p1)} {at(passes, p2)}))"))
                if lean:
                    self.trusted_used.add("filter comprehension [x for x in xs if p(x)] (membership profile): len(r) <= len(xs), every member of r satisfies p, "
                                          "x in r iff x in xs and p(x) (List.mem_filter)")
                elif index_only:
                  self.trusted_used.add("filter comprehension (index profile): len bounds, emptiness iff no index passes, all pass iff same length, first member from first passing index, >= 2 members iff two indices pass (List.filter/map lemmas)")
                else:
                  self.trusted_used.add("filter comprehension: len bounds, emptiness iff no index passes, members are images of passing indices, first member from first passing index, >= 2 members iff two indices pass (List.filter/map lemmas)")
        self.def_groups[r.t] = set(s_ok.pc[def_mark:])
        out.append((s_ok, r))
        return out
