"""Contract registry and the contract-expression language.

A contract clause is a Python *expression* (string).  It is compiled two ways:
  * to an SMT term by SpecEval below (total functions, no exceptions, and/or build ite),
  * to a Python predicate by runtime/monitor.py (eval with the Python spec library).
"""
import ast

from .terms import (And, Or, Not, Implies, Ite, Eq, asV, asB, asI, asS, mkB, mkI, mkS, TRUE, FALSE,
                    const_term, seq_of_terms)
from .values import Val, PyC, PyList, SymObj, OutOfSubset, fresh_name
from . import smt

REG = {}
MACROS = {}      # name -> (parameter names, expression source): expanded in both compilations


def macro(name, params, src):
    MACROS[name] = (list(params), src)


class _Subst(ast.NodeTransformer):
    def __init__(self, mapping):
        self.mapping = mapping

    def visit_Name(self, node):
        if node.id in self.mapping:
            import copy
            return copy.deepcopy(self.mapping[node.id])
        return node


class Contract:
    def __init__(self, key, inst=None, requires="True", returns="True", raises=(), may_raise=(),
                 modifies=(), calls=None, invariants=None, props=(), kinds=None, result_kind=None,
                 result_cls=None, ghost=None, idempotent_writes=(), note="", assume=(), trusted=False,
                 comp_invariants=None, bounded_only=False, decreases=None, lemmas=()):
        self.lemmas = list(lemmas)
        self.key = key
        self.inst = inst
        self.requires = requires
        self.returns = returns
        # raises: list of (names tuple, condition) meaning: raises one of names IFF condition
        self.raises = [((n,) if isinstance(n, str) else tuple(n), c) for n, c in raises]
        # may_raise: list of (names tuple, condition) meaning: may raise one of names ONLY IF condition
        self.may_raise = [((n,) if isinstance(n, str) else tuple(n), c) for n, c in may_raise]
        self.modifies = list(modifies)
        self.calls = calls or {}
        self.invariants = invariants or {}
        self.comp_invariants = comp_invariants or {}
        self.props = list(props)
        self.kinds = kinds or {}
        self.result_kind = result_kind
        self.result_cls = result_cls
        self.ghost = ghost or {}
        self.idempotent_writes = list(idempotent_writes)
        self.note = note
        self.assume = list(assume)
        self.trusted = trusted          # contract assumed, not verified (external / out of reach)
        self.bounded_only = bounded_only
        self.decreases = decreases

    @property
    def name(self):
        q = self.key.split(":")[1]
        return q + (f"[{self.inst}]" if self.inst else "")


def contract(key, inst=None, **kw):
    insts = inst if isinstance(inst, (list, tuple)) else [inst]
    for i in insts:
        REG[(key, i)] = Contract(key, inst=i, **kw)


def lookup(key, inst=None):
    c = REG.get((key, inst))
    if c is None and inst is not None:
        c = REG.get((key, None))
    return c


# --------------------------------------------------------------------------- spec functions
# name -> (list of arg sorts, result sort, smt function name)
SPEC_FUNS = {
    "is_num": (["V"], "B", "is_num"), "is_pynum": (["V"], "B", "is_pynum"),
    "is_json": (["V"], "B", "is_json"),
    "is_none": (["V"], "B", "k_none"), "is_np": (["V"], "B", "k_np"), "is_bool": (["V"], "B", "k_bool"),
    "is_int": (["V"], "B", "k_int"), "is_float": (["V"], "B", "k_float"), "is_str": (["V"], "B", "k_str"),
    "is_list": (["V"], "B", "k_list"), "is_tuple": (["V"], "B", "k_tuple"), "is_dict": (["V"], "B", "k_dict"),
    "is_obj": (["V"], "B", "k_obj"), "is_cls": (["V"], "B", "k_cls"), "is_set": (["V"], "B", "k_set"),
    "dict_wf": (["V"], "B", "dict_wf"),
    "json_eq": (["V", "V"], "B", "json_eq"), "py_eq": (["V", "V"], "B", "py_eq"),
    "truthy": (["V"], "B", "truthy"),
    "num": (["V"], "R", "num"),
    "re_search": (["S", "S"], "B", "re_search"),
    "has_dup_json": (["V"], "B", None), "has_dup_py": (["V"], "B", None),
    "member_json": (["V", "V"], "B", None), "member_py": (["V", "V"], "B", None),
}


def register_spec_fun(name, args, res, smtname):
    SPEC_FUNS[name] = (args, res, smtname)


def _simp_seqof(t):
    """Sequence term for membership atoms: (seqof (v_list X)) -> X; (seqof x) -> (lseq x) (pattern-safe alias)."""
    from .terms import mseq
    return mseq(t)


class SpecEval:
    """Compile a contract expression to an SMT term over an environment of symbolic values."""

    def __init__(self, engine, env, old_env=None, glob=None, old_state=None):
        self.old_state = old_state
        self.e = engine
        self.env = env
        self.old_env = old_env
        self.glob = glob

    def compile_bool(self, src):
        if isinstance(src, str):
            node = ast.parse(src, mode="eval").body
        else:
            node = src
        return asB(self.ev(node))

    def ev(self, n):
        m = getattr(self, "ev_" + type(n).__name__, None)
        if m is None:
            raise OutOfSubset(f"contract expression: {type(n).__name__}", n)
        return m(n)

    def ev_Constant(self, n):
        return self.e.lift(PyC(n.value))

    def ev_Name(self, n):
        if n.id in self.env:
            return self.e.lift(self.env[n.id])
        if n.id in ("True", "False", "None"):
            return self.e.lift(PyC({"True": True, "False": False, "None": None}[n.id]))
        if n.id == "NP":
            return Val("v_np", kind="np")
        c = self.e.spec_constant(n.id)
        if c is not None:
            return c
        if self.glob is not None and n.id in self.glob:
            return self.e.lift(PyC(self.glob[n.id]))
        raise OutOfSubset(f"contract expression: unknown name {n.id}", n)

    def ev_Tuple(self, n):
        return Val("(v_tuple " + seq_of_terms([asV(self.ev(x)) for x in n.elts]) + ")", kind="tuple")

    def ev_List(self, n):
        return Val("(v_list " + seq_of_terms([asV(self.ev(x)) for x in n.elts]) + ")", kind="list")

    def ev_Dict(self, n):
        items = []
        for k, v in zip(n.keys, n.values):
            items.append(f"(v_pair {asS(self.ev(k))} {asV(self.ev(v))})")
        return Val("(v_dict " + seq_of_terms(items) + ")", kind="dict")

    def ev_BoolOp(self, n):
        vals = [self.ev(v) for v in n.values]
        if all(v.sort == "B" for v in vals):
            return mkB((And if isinstance(n.op, ast.And) else Or)(*[v.t for v in vals]))
        # operand-returning semantics
        acc = vals[-1]
        for v in reversed(vals[:-1]):
            c = asB(v)
            if isinstance(n.op, ast.And):
                acc = Val(Ite(c, asV(acc), asV(v)))
            else:
                acc = Val(Ite(c, asV(v), asV(acc)))
        return acc

    def ev_UnaryOp(self, n):
        v = self.ev(n.operand)
        if isinstance(n.op, ast.Not):
            return mkB(Not(asB(v)))
        if isinstance(n.op, ast.USub):
            return mkI(f"(- {asI(v)})")
        raise OutOfSubset("contract unary op", n)

    def ev_IfExp(self, n):
        c = asB(self.ev(n.test))
        a, b = self.ev(n.body), self.ev(n.orelse)
        if a.sort == b.sort and a.sort != "V":
            return Val(Ite(c, a.t, b.t), a.sort)
        return Val(Ite(c, asV(a), asV(b)))

    def ev_BinOp(self, n):
        a, b = self.ev(n.left), self.ev(n.right)
        op = {ast.Add: "+", ast.Sub: "-", ast.Mult: "*"}.get(type(n.op))
        if op is None:
            raise OutOfSubset("contract binop", n)
        if isinstance(n.op, ast.Add) and (a.kind in ("list", "tuple") or b.kind in ("list", "tuple")):
            k = a.kind or b.kind
            ctor = "v_list" if k == "list" else "v_tuple"
            return Val(f"({ctor} (seq.++ (seqof {asV(a)}) (seqof {asV(b)})))", kind=k)
        if isinstance(n.op, ast.Add) and (a.sort == "S" or a.kind == "str" or b.sort == "S" or b.kind == "str"):
            return mkS(f"(str.++ {asS(a)} {asS(b)})")
        return mkI(f"({op} {asI(a)} {asI(b)})")

    def ev_Compare(self, n):
        left = self.ev(n.left)
        parts = []
        for op, rn in zip(n.ops, n.comparators):
            right = self.ev(rn)
            parts.append(self.cmp(op, left, right))
            left = right
        return mkB(And(*parts))

    def cmp(self, op, a, b):
        intlike = a.sort == "I" and b.sort == "I"
        if a.sort == "R" or b.sort == "R":
            ta = a.t if a.sort == "R" else (f"(to_real {a.t})" if a.sort == "I" else f"(num {asV(a)})")
            tb = b.t if b.sort == "R" else (f"(to_real {b.t})" if b.sort == "I" else f"(num {asV(b)})")
            sym = {ast.Lt: "<", ast.LtE: "<=", ast.Gt: ">", ast.GtE: ">=", ast.Eq: "="}.get(type(op))
            if sym:
                return f"({sym} {ta} {tb})"
            if isinstance(op, ast.NotEq):
                return Not(f"(= {ta} {tb})")
        if isinstance(op, (ast.Eq, ast.NotEq)):
            if intlike or (a.sort == b.sort and a.sort in ("B", "S")):
                t = Eq(a.t, b.t)
            else:
                t = f"(py_eq {asV(a)} {asV(b)})"
            return t if isinstance(op, ast.Eq) else Not(t)
        if isinstance(op, (ast.Is, ast.IsNot)):
            t = Eq(asV(a), asV(b))
            if (a.kind in ("list", "tuple", "dict") or b.kind in ("list", "tuple", "dict")) and not getattr(self, "bound_vars", ()) :
                self.e.ext_instance(asV(a), asV(b))
            return t if isinstance(op, ast.Is) else Not(t)
        if isinstance(op, (ast.In, ast.NotIn)):
            if b.kind == "dict" and a.sort in ("S",):
                t = f"(dhas {asV(b)} {a.t})"
            else:
                t = f"(py_contains {asV(b)} {asV(a)})"
            return t if isinstance(op, ast.In) else Not(t)
        if intlike:
            sym = {ast.Lt: "<", ast.LtE: "<=", ast.Gt: ">", ast.GtE: ">="}[type(op)]
            return f"({sym} {a.t} {b.t})"
        if isinstance(op, ast.Lt):
            return f"(py_lt {asV(a)} {asV(b)})"
        if isinstance(op, ast.LtE):
            return f"(py_le {asV(a)} {asV(b)})"
        if isinstance(op, ast.Gt):
            return f"(py_lt {asV(b)} {asV(a)})"
        if isinstance(op, ast.GtE):
            return f"(py_le {asV(b)} {asV(a)})"
        raise OutOfSubset("contract comparison")

    def ev_Attribute(self, n):
        base = self.ev_raw(n.value)
        return self.e.lift(self.e.spec_getattr(base, n.attr))

    def ev_raw(self, n):
        """Evaluate without lifting SymObj (so attribute reads on fresh objects stay strong)."""
        if isinstance(n, ast.Name) and n.id in self.env:
            return self.env[n.id]
        if isinstance(n, ast.Attribute):
            return self.e.spec_getattr(self.ev_raw(n.value), n.attr)
        return self.ev(n)

    def ev_Subscript(self, n):
        base = self.ev(n.value)
        if isinstance(n.slice, ast.Slice):
            lo = asI(self.ev(n.slice.lower)) if n.slice.lower else "0"
            s = f"(seqof {asV(base)})"
            hi = asI(self.ev(n.slice.upper)) if n.slice.upper else f"(seq.len {s})"
            ctor = "v_tuple" if base.kind == "tuple" else "v_list"
            return Val(f"({ctor} (seq.extract {s} {lo} (- {hi} {lo})))", kind=base.kind or "list")
        idx = self.ev(n.slice)
        if idx.sort == "S" or idx.kind == "str":
            return Val(f"(dval {asV(base)} {asS(idx)})")
        if idx.sort == "I" or idx.kind == "int":
            return Val(f"(seq.nth (seqof {asV(base)}) {asI(idx)})")
        return Val(f"(py_getitem {asV(base)} {asV(idx)})")

    def ev_Call(self, n):
        if isinstance(n.func, ast.Name):
            f = n.func.id
            if f in MACROS:
                params, src = MACROS[f]
                body = ast.parse(src, mode="eval").body
                body = _Subst(dict(zip(params, n.args))).visit(body)
                return self.ev(ast.fix_missing_locations(body))
            if f in ("forall", "exists"):
                lam = n.args[0]
                assert isinstance(lam, ast.Lambda)
                var = lam.args.args[0].arg
                hi = asI(self.ev(n.args[1]))
                lo = asI(self.ev(n.args[2])) if len(n.args) > 2 else "0"
                q = fresh_name("q" + var)
                sub = SpecEval(self.e, {**self.env, var: mkI(q)}, self.old_env, self.glob, self.old_state)
                sub.bound_vars = tuple(getattr(self, "bound_vars", ())) + (q,)
                body = asB(sub.ev(lam.body))
                rng = f"(and (<= {lo} {q}) (< {q} {hi}))"
                if f == "forall":
                    return mkB(f"(forall (({q} Int)) (=> {rng} {body}))")
                return mkB(f"(exists (({q} Int)) (and {rng} {body}))")
            if f == "old":
                sub = SpecEval(self.e, self.old_env or self.env, None, self.glob)
                saved = self.e.spec_state
                self.e.spec_state = self.old_state
                try:
                    return sub.ev(n.args[0])
                finally:
                    self.e.spec_state = saved
            if f == "call1":
                self.e.declare_fun("call1", ["V", "V"], "V")
                return Val(f"(call1 {asV(self.ev(n.args[0]))} {asV(self.ev(n.args[1]))})")
            if f == "format_ok":
                # Dev-2: a format constrains only when a checker is registered under that name
                import statham.schema.validation.format as fm
                self.e.declare_fun("call1", ["V", "V"], "V")
                reg = self.e.lift(self.e.spec_getattr(self.e.named_object(fm.format_checker), "_callable_register"))
                name = asS(self.ev(n.args[0]))
                val = asV(self.ev(n.args[1]))
                return mkB(f"(ite (dhas {asV(reg)} {name}) (truthy (call1 (dval {asV(reg)} {name}) {val})) true)")
            if f == "format_reg_wf":
                import statham.schema.validation.format as fm
                obj = self.e.named_object(fm.format_checker)
                reg = self.e.lift(self.e.spec_getattr(obj, "_callable_register"))
                nm = self.e.lift(self.e.spec_getattr(obj, "__name__"))
                return mkB(f"(and (dict_wf {asV(reg)}) (k_str {asV(nm)}))")
            if f == "forall_keys_unchanged":
                a, b2 = asV(self.ev(n.args[0])), asV(self.ev(n.args[1]))
                kk = asS(self.ev(n.args[2]))
                q = fresh_name("kq")
                return mkB(f"(forall (({q} String)) (=> (not (= {q} {kk})) (= (dval {b2} {q}) (dval {a} {q}))))")
            if f == "len":
                v = self.ev(n.args[0])
                if v.sort == "S":
                    return mkI(f"(str.len {v.t})")
                return mkI(f"(py_len {asV(v)})")
            if f == "isinstance":
                raw = self.ev_raw(n.args[0])
                if isinstance(raw, SymObj):
                    cn = n.args[1]
                    classes = [cn] if not isinstance(cn, ast.Tuple) else cn.elts
                    objs = [self.e.spec_names.get(x.id) or getattr(__import__("builtins"), x.id, None) for x in classes if isinstance(x, ast.Name)]
                    if len(objs) == len(classes) and all(isinstance(o, type) for o in objs):
                        return mkB(TRUE if issubclass(raw.cls, tuple(objs)) else FALSE)
                v = self.ev(n.args[0])
                cn = n.args[1]
                cnodes = [cn] if not isinstance(cn, ast.Tuple) else cn.elts
                import builtins as _b
                objs = []
                for xn in cnodes:
                    o = None
                    if isinstance(xn, ast.Name):
                        o = self.e.spec_names.get(xn.id) or ({"NoneType": type(None)}.get(xn.id)) or getattr(_b, xn.id, None)
                    objs.append(o)
                if all(isinstance(o, type) for o in objs):
                    from .terms import isinstance_any_term
                    return mkB(isinstance_any_term(asV(v), objs, self.e.ctab))
                c = self.ev(n.args[1])
                return mkB(f"(py_isinstance {asV(v)} {asV(c)})")
            if f == "is_obj":
                raw = self.ev_raw(n.args[0])
                if isinstance(raw, SymObj):
                    return mkB(TRUE)
            if f == "has":
                d = self.ev(n.args[0])
                k = self.ev(n.args[1])
                return mkB(f"(dhas {asV(d)} {asS(k)})")
            if f == "type_is":
                v = self.ev(n.args[0])
                c = self.ev(n.args[1])
                return mkB(f"(= (type_of {asV(v)}) (cid {asV(c)}))")
            if f == "implies":
                return mkB(Implies(asB(self.ev(n.args[0])), asB(self.ev(n.args[1]))))
            if f == "iff":
                return mkB(Eq(asB(self.ev(n.args[0])), asB(self.ev(n.args[1]))))
            if f == "has_dup_json":
                return mkB(f"(has_dup_json (seqof {asV(self.ev(n.args[0]))}) 0)")
            if f == "has_dup_py":
                return mkB(f"(has_dup_py (seqof {asV(self.ev(n.args[0]))}) 0)")
            if f == "member_json":
                return mkB(f"(seq_has_jsoneq (seqof {asV(self.ev(n.args[0]))}) {asV(self.ev(n.args[1]))} 0)")
            if f == "member_py":
                return mkB(f"(seq_has_pyeq (seqof {asV(self.ev(n.args[0]))}) {asV(self.ev(n.args[1]))} 0)")
            if f == "eff_required":
                el = self.ev(n.args[0])
                ex = self.e.lift(self.e.spec_getattr(el, "required"))
                pr = self.e.lift(self.e.spec_getattr(el, "properties"))
                prq = self.e.lift(self.e.spec_getattr(pr, "required"))
                a = f"(ite (truthy {asV(ex)}) (seqof {asV(ex)}) (as seq.empty (Seq V)))"
                b = f"(ite (truthy {asV(pr)}) (seqof {asV(prq)}) (as seq.empty (Seq V)))"
                if not getattr(self, "bound_vars", ()):
                    # lemma CONCAT-ALL (spec/lemmas/concat_all.smt2) instantiated at these two sequences with P := is_str
                    j = fresh_name("cj")
                    allp = lambda s: f"(forall (({j} Int)) (=> (and (<= 0 {j}) (< {j} (seq.len {s}))) (k_str (seq.nth {s} {j}))))"
                    inst = f"(=> (and {allp(a)} {allp(b)}) {allp(f'(seq.++ {a} {b})')})"
                    if inst.replace(j, "J") not in [g.replace(j, "J") for g in getattr(self.e, "_concat_all_seen", [])]:
                        self.e._concat_all_seen = getattr(self.e, "_concat_all_seen", []) + [inst]
                        self.e.globals_assumed.append(inst)
                        self.e.lemma_instances_used.add("CONCAT-ALL")
                return Val(f"(v_list (seq.++ {a} {b}))", kind="list")
            if f == "has_unsupported":
                # the *documented* list (docs/ + property statement), not the live constant: a shrunk constant must be noticed
                from spec.pyspec import DOCUMENTED_UNSUPPORTED
                d = asV(self.ev(n.args[0]))
                return mkB(Or(*[f"(dhas {d} {smt.sstr(kw)})" for kw in sorted(DOCUMENTED_UNSUPPORTED)]))
            if f == "obj_dict":
                x = asV(self.ev(n.args[0]))
                return Val(self.e.as_dict(x), kind="dict")
            if f == "item_schema":
                it = self.ev(n.args[0])
                j = asI(self.ev(n.args[1]))
                items = asV(self.e.lift(self.e.spec_getattr(it, "items")))
                addl = asV(self.e.lift(self.e.spec_getattr(it, "additional")))
                return Val(f"(ite (k_list {items}) (ite (< {j} (seq.len (lval {items}))) (seq.nth (lval {items}) {j}) {addl}) {items})")
            if f == "key_at":
                d = self.ev(n.args[0])
                j = self.ev(n.args[1])
                return Val(f"(v_str (pkey (seq.nth (ditems {asV(d)}) {asI(j)})))", kind="str")
            if f == "val_at":
                d = self.ev(n.args[0])
                j = self.ev(n.args[1])
                return Val(f"(pval (seq.nth (ditems {asV(d)}) {asI(j)}))")
            if f == "seen_has":
                self.e.declare_fun("py_id", ["V"], "Int")
                s = asV(self.ev(n.args[0]))
                x = asV(self.ev(n.args[1]))
                return mkB(f"(and (k_set {s}) (seq_has_pyeq (sitems {s}) (v_int (py_id {x})) 0))")
            if f == "forall_v":
                # universal quantification over all values
                lam = n.args[0]
                assert isinstance(lam, ast.Lambda)
                var = lam.args.args[0].arg
                q = fresh_name("v" + var)
                sub = SpecEval(self.e, {**self.env, var: Val(q)}, self.old_env, self.glob, self.old_state)
                sub.bound_vars = tuple(getattr(self, "bound_vars", ())) + (q,)
                return mkB(f"(forall (({q} V)) {asB(sub.ev(lam.body))})")
            if f in ("all_members", "some_member"):
                # quantification over the members of a list, in identity-membership form
                s = _simp_seqof(f"(seqof {asV(self.ev(n.args[0]))})")
                lam = n.args[1]
                assert isinstance(lam, ast.Lambda)
                var = lam.args.args[0].arg
                q = fresh_name("m" + var)
                sub = SpecEval(self.e, {**self.env, var: Val(q)}, self.old_env, self.glob, self.old_state)
                sub.bound_vars = tuple(getattr(self, "bound_vars", ())) + (q,)
                body = asB(sub.ev(lam.body))
                if f == "all_members":
                    return mkB(f"(forall (({q} V)) (! (=> (ismem {s} {q}) {body}) :pattern ((ismem {s} {q}))))")
                return mkB(f"(exists (({q} V)) (and (ismem {s} {q}) {body}))")
            if f == "members_subset":
                a = f"(seqof {asV(self.ev(n.args[0]))})"
                b = f"(seqof {asV(self.ev(n.args[1]))})"
                x = fresh_name("mx")
                return mkB(f"(forall (({x} V)) (! (=> (ismem {_simp_seqof(a)} {x}) (ismem {_simp_seqof(b)} {x})) :pattern ((ismem {_simp_seqof(a)} {x})) :pattern ((ismem {_simp_seqof(b)} {x}))))")
            if f == "prefix":
                a = f"(seqof {asV(self.ev(n.args[0]))})"
                return Val(f"(v_list (seq.extract {_simp_seqof(a)} 0 {asI(self.ev(n.args[1]))}))", kind="list")
            if f == "member_is":
                s = f"(seqof {asV(self.ev(n.args[0]))})"
                x = asV(self.ev(n.args[1]))
                return mkB(f"(ismem {_simp_seqof(s)} {x})")
            if f == "attr_absent":
                base = self.ev_raw(n.args[0])
                name = n.args[1].value
                return mkB(Eq(asV(self.e.lift(self.e.spec_getattr(base, name))), "v_absent"))
            if f in SPEC_FUNS:
                sorts, res, name = SPEC_FUNS[f]
                args = []
                for s, a in zip(sorts, n.args):
                    v = self.ev(a)
                    args.append({"V": asV, "B": asB, "I": asI, "S": asS}[s](v))
                self.e.use_spec_fun(f)
                return Val(f"({name} {' '.join(args)})" if args else name, res if res != "V" else "V")
        if isinstance(n.func, ast.Attribute) and n.func.attr in ("startswith", "endswith") and len(n.args) == 1:
            s = asS(self.ev(n.func.value))
            p = asS(self.ev(n.args[0]))
            return mkB(f"(str.prefixof {p} {s})" if n.func.attr == "startswith" else f"(str.suffixof {p} {s})")
        raise OutOfSubset(f"contract call {ast.unparse(n.func)}", n)

SPEC_FUNS.update({
    "sem": (["V", "V"], "B", "sem"), "build": (["V", "V"], "V", "build"),
    "all_present": (["V", "V"], "B", "all_present"), "rbd": (["V"], "V", "rbd"),
    "props_accepts": (["V", "S"], "B", "props_accepts"),
    "outcome_of": (["V", "V"], "V", "outcome_of"),
    "d6_multiple": (["V", "V"], "B", "d6_multiple"),
    "lit_of": (["V"], "V", "lit_of"),
    "dflt": (["V"], "V", "dflt"), "ann": (["V"], "S", "ann"), "item_anns": (["V"], "V", "item_anns"), "prop_for": (["V", "S"], "V", "prop_for"),
    "vrejects": (["V", "V"], "B", "vrejects"), "validators_of": (["V"], "V", "validators_of"),
    "csem": (["V", "V"], "B", "csem"), "cbuild": (["V", "V"], "V", "cbuild"), "accepts_all": (["V", "V"], "B", "accepts_all"),
})
