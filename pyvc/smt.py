"""SMT-LIB plumbing: prelude, solver portfolio, s-expression reader, model decoding."""
import os
import re
import subprocess
import tempfile
import time
from concurrent.futures import ThreadPoolExecutor
from fractions import Fraction

HERE = os.path.dirname(os.path.abspath(__file__))
ROOT = os.path.dirname(HERE)
PRELUDE = open(os.path.join(ROOT, "spec", "prelude.smt2")).read()
SPECLIB_PATH = os.path.join(ROOT, "spec", "speclib.smt2")

SOLVERS = {
    "z3-5.1.0": lambda f, t: ["z3-new", "-smt2", f"-T:{max(1, int(t))}", f],
    "z3-4.8.12": lambda f, t: ["/usr/bin/z3", "-smt2", f"-T:{max(1, int(t))}", f],
    "cvc5-1.0.3": lambda f, t: [
        "/usr/bin/cvc5", "--strings-exp", "--dt-nested-rec", "--produce-models",
        f"--tlimit={int(t * 1000)}", f],
}


def speclib():
    return open(SPECLIB_PATH).read() if os.path.exists(SPECLIB_PATH) else ""


def spec_module(name):
    return open(os.path.join(ROOT, "spec", name + ".smt2")).read()


def sstr(s: str) -> str:
    """SMT-LIB 2.6 string literal."""
    out = []
    for ch in s:
        o = ord(ch)
        if ch == '"':
            out.append('""')
        elif 32 <= o < 127 and ch != "\\":
            out.append(ch)
        else:
            out.append("\\u{%x}" % o)
    return '"' + "".join(out) + '"'


def sint(n: int) -> str:
    return str(n) if n >= 0 else f"(- {-n})"


def sreal(fr) -> str:
    fr = Fraction(fr)
    n, d = fr.numerator, fr.denominator
    body = f"(/ {abs(n)}.0 {d}.0)" if d != 1 else f"{abs(n)}.0"
    return body if n >= 0 else f"(- {body})"


def run_solver(name, path, timeout):
    t0 = time.time()
    try:
        p = subprocess.run(SOLVERS[name](path, timeout), capture_output=True, text=True,
                           timeout=timeout + 5)
        out = p.stdout.strip()
    except subprocess.TimeoutExpired:
        out = "timeout"
    dt = time.time() - t0
    first = "unknown"
    for line in out.split("\n"):
        line = line.strip()
        if line in ("sat", "unsat"):
            first = line
            break
        if line.startswith("(error") or line == "unsupported":
            first = "error"
            break
    return first, out, dt


class Result:
    __slots__ = ("status", "solver", "time", "output", "attempts", "path")

    def __init__(self, status, solver, time_, output, attempts, path):
        self.status = status
        self.solver = solver
        self.time = time_
        self.output = output
        self.attempts = attempts
        self.path = path


def _parse_status(out):
    for line in out.split("\n"):
        line = line.strip()
        if line in ("sat", "unsat"):
            return line
        if line.startswith("(error") or line == "unsupported":
            return "error"
    return "unknown"


def race(names, path, timeout):
    """Run several solvers on one file concurrently; the first definitive answer wins and the others are killed.
    Returns (answers dict name -> (status, output, seconds), attempts list)."""
    procs = {}
    t0 = time.time()
    for n in names:
        procs[n] = subprocess.Popen(SOLVERS[n](path, timeout), stdout=subprocess.PIPE, stderr=subprocess.DEVNULL, text=True)
    answers, attempts = {}, []
    pending = dict(procs)
    while pending and time.time() - t0 < timeout + 5:
        for n, p in list(pending.items()):
            if p.poll() is not None:
                out = (p.stdout.read() or "").strip()
                st = _parse_status(out)
                attempts.append((n, st, round(time.time() - t0, 3)))
                del pending[n]
                if st in ("sat", "unsat"):
                    answers[n] = (st, out, time.time() - t0)
        if answers:
            break
        time.sleep(0.01)
    # give the others a short grace period only to detect disagreement cheaply, then kill them
    for n, p in pending.items():
        try:
            p.kill()
            p.wait(timeout=2)
        except Exception:
            pass
        attempts.append((n, "cancelled" if answers else "timeout", round(time.time() - t0, 3)))
    return answers, attempts


def solve_text(text, timeout=10.0, keep_dir=None, name="vc", order=None, quick_first=True, race_all=False):
    """Run the portfolio on one self-contained SMT-LIB text.

    First z3-5.1.0 alone with a short budget (almost everything is decided in milliseconds); what it
    leaves open goes to all solvers concurrently, first definitive answer wins.
    """
    d = keep_dir or tempfile.mkdtemp(prefix="pyvc_", dir=os.environ.get("PYVC_TMP", "/dev/shm" if os.path.isdir("/dev/shm") else None))
    os.makedirs(d, exist_ok=True)
    path = os.path.join(d, re.sub(r"[^A-Za-z0-9_.#@\[\]-]", "_", name)[:150] + ".smt2")
    with open(path, "w") as fh:
        fh.write(text)
    attempts = []
    order = order or ["z3-5.1.0", "z3-4.8.12", "cvc5-1.0.3"]
    if race_all:
        answers, attempts = race(order, path, timeout)
        if answers:
            n = next(iter(answers))
            res = Result(answers[n][0], n, answers[n][2], answers[n][1], attempts, path)
        else:
            res = Result("unknown", "", timeout, "", attempts, path)
        if keep_dir is None:
            try:
                os.remove(path)
                os.rmdir(d)
            except OSError:
                pass
        return res
    first = order[0]
    budget = min(timeout, 1.5) if (quick_first and len(order) > 1) else timeout
    st, out, dt = run_solver(first, path, budget)
    attempts.append((first, st, round(dt, 3)))
    if st in ("sat", "unsat"):
        res = Result(st, first, dt, out, attempts, path)
    elif len(order) == 1:
        res = Result("unknown", "", dt, out, attempts, path)
    else:
        answers, att2 = race(order, path, timeout)
        attempts.extend(att2)
        if answers:
            n = next(iter(answers))
            res = Result(answers[n][0], n, answers[n][2], answers[n][1], attempts, path)
        else:
            res = Result("unknown", "", sum(a[2] for a in attempts), out, attempts, path)
    if keep_dir is None:
        try:
            os.remove(path)
            os.rmdir(d)
        except OSError:
            pass
    return res


# ---------------------------------------------------------------- s-expressions

def parse_sexprs(text):
    toks = re.findall(r'"(?:[^"]|"")*"|\(|\)|[^\s()]+', text)
    pos = 0

    def rd():
        nonlocal pos
        t = toks[pos]
        pos += 1
        if t == "(":
            lst = []
            while toks[pos] != ")":
                lst.append(rd())
            pos += 1
            return lst
        return t

    out = []
    while pos < len(toks):
        out.append(rd())
    return out


class Absent:
    def __repr__(self):
        return "<absent>"


class Sent:
    def __init__(self, n):
        self.n = n

    def __repr__(self):
        return f"<sentinel {self.n}>"

    def __eq__(self, o):
        return isinstance(o, Sent) and o.n == self.n

    def __hash__(self):
        return hash(("sent", self.n))


class ObjRef:
    def __init__(self, n):
        self.n = n

    def __repr__(self):
        return f"<obj {self.n}>"

    def __eq__(self, o):
        return isinstance(o, ObjRef) and o.n == self.n

    def __hash__(self):
        return hash(("obj", self.n))


class ClsRef(ObjRef):
    def __repr__(self):
        return f"<cls {self.n}>"


class NPMark:
    def __repr__(self):
        return "<NotPassed>"

    def __eq__(self, o):
        return isinstance(o, NPMark)

    def __hash__(self):
        return 7


def _unstr(tok):
    s = tok[1:-1].replace('""', '"')
    return re.sub(r"\\u\{([0-9a-fA-F]+)\}", lambda m: chr(int(m.group(1), 16)), s)


def _num(e):
    if isinstance(e, list):
        if e[0] == "-" and len(e) == 2:
            return -_num(e[1])
        if e[0] == "/":
            return Fraction(_num(e[1])) / Fraction(_num(e[2]))
        if e[0] == "to_real":
            return _num(e[1])
        raise ValueError(e)
    if "." in e:
        return Fraction(e)
    return int(e)


def _seq(e):
    if isinstance(e, list):
        if e[0] == "as" and e[1] == "seq.empty":
            return []
        if e[0] == "seq.unit":
            return [decode_value(e[1])]
        if e[0] == "seq.++":
            out = []
            for x in e[1:]:
                out.extend(_seq(x))
            return out
    raise ValueError(f"seq: {e}")


def decode_value(e):
    """Model s-expression of sort V -> Python value (floats as float, exact if representable)."""
    if isinstance(e, str):
        if e == "v_none":
            return None
        if e == "v_np":
            return NPMark()
        if e == "v_absent":
            return Absent()
        raise ValueError(e)
    h = e[0]
    if h == "v_bool":
        return e[1] == "true"
    if h == "v_int":
        return int(_num(e[1]))
    if h == "v_float":
        return float(_num(e[1]))
    if h == "v_str":
        return _unstr(e[1])
    if h == "v_list":
        return _seq(e[1])
    if h == "v_tuple":
        return tuple(_seq(e[1]))
    if h == "v_set":
        return _seq(e[1])
    if h == "v_dict":
        d = {}
        for it in _seq(e[1]):
            if isinstance(it, tuple) and len(it) == 3 and it[0] == "__pair__" and it[1] not in d:
                d[it[1]] = it[2]
        return d
    if h == "v_pair":
        return ("__pair__", _unstr(e[1]), decode_value(e[2]))
    if h == "v_sent":
        return Sent(int(_num(e[1])))
    if h == "v_obj":
        return ObjRef(int(_num(e[1])))
    if h == "v_cls":
        return ClsRef(int(_num(e[1])))
    raise ValueError(f"decode: {e}")


def get_values(text_without_check, terms, timeout=10.0):
    """Re-run a sat query asking for the values of `terms`; returns {term: python value} or None."""
    if not terms:
        return {}
    q = text_without_check + "\n(check-sat)\n(get-value (" + " ".join(terms) + "))\n"
    for solver in ("z3-4.8.12", "z3-5.1.0"):
        d = tempfile.mkdtemp(prefix="pyvc_m_")
        path = os.path.join(d, "m.smt2")
        open(path, "w").write(q)
        st, out, _ = run_solver(solver, path, timeout)
        try:
            os.remove(path)
            os.rmdir(d)
        except OSError:
            pass
        if st != "sat":
            continue
        try:
            body = out.split("\n", 1)[1]
            sx = parse_sexprs(body)[0]
            res = {}
            for (term, val), tname in zip(sx, terms):
                try:
                    res[tname] = decode_value(val)
                except Exception:
                    res[tname] = ("__undecoded__", val)
            return res
        except Exception:
            continue
    return None
