"""Verification driver: one function under contract -> obligations -> solver verdicts."""
import ast
import os
import time
from concurrent.futures import ThreadPoolExecutor

from . import smt
from .builtins_model import BuiltinMixin, SuperProxy
from .calls import CallMixin
from .contracts import SpecEval, lookup, REG
from .core import CoreMixin, St, Obligation
from .exprs import ExprMixin, is_exc
from .front import find_function
from .stmts import StmtMixin
from .terms import (And, Or, Not, Implies, Ite, Eq, asV, asB, asI, asS, mkB, mkI, mkS, TRUE, FALSE)
from .values import (Val, PyC, PyList, SymObj, Closure, BM, Exc, OutOfSubset, fresh_name, ClassTable)


def spec_namespace():
    """Simple names usable in contracts: every class defined in statham + builtin exceptions."""
    import importlib
    import inspect
    import pkgutil
    import statham
    ns = {}
    mods = []
    for m in pkgutil.walk_packages(statham.__path__, "statham."):
        if m.name.endswith("__main__"):
            continue
        try:
            mods.append(importlib.import_module(m.name))
        except Exception:
            pass
    for mod in mods:
        for k, v in vars(mod).items():
            if inspect.isclass(v) and getattr(v, "__module__", "").startswith("statham"):
                ns.setdefault(v.__name__, v)
    return ns, mods


class FunctionReport:
    def __init__(self, contract, fi):
        self.contract = contract
        self.name = contract.name
        self.key = contract.key
        self.sha = fi.sha if fi else None
        self.obligations = []
        self.covers = []
        self.out_of_subset = None
        self.notes = []
        self.trusted = []
        self.frame_log = []
        self.called = []
        self.trivial = 0
        self.paths = 0
        self.wall = 0.0
        # defaults for a report that ends early (the function named by the contract no longer exists in the tree under test)
        self.pending = []
        self.oos_paths = []
        self.lemma_instances = []
        self.ctx = ([], [], [])
        self.input_terms = {}
        self.def_groups = {}
        self.sdict_facts = {}


class Engine(CoreMixin, ExprMixin, CallMixin, StmtMixin, BuiltinMixin):
    max_paths = 400

    def __init__(self, ctab=None, spec_ns=None, inline_keys=()):
        self.ctab = ctab or ClassTable()
        if spec_ns is None:
            spec_ns, mods = spec_namespace()
            self.ctab.register_module_classes(mods)
        from statham.schema.validation import base as _vb
        assert self.ctab.sentinel(_vb._TRUE) == 1 and self.ctab.sentinel(_vb._FALSE) == 2
        self.spec_names = spec_ns
        self.inline_keys = set(inline_keys) | {"statham.schema.validation.base:Validator.__init__"}
        self.attr_kinds = {"params": ("dict", None)}
        self.concrete_eval = {"statham.schema.validation:_all_subclasses"}
        self.set_iterations = []

    # ------------------------------------------------------------------ set-up per function
    def reset(self, contract, fi, cname):
        self.init_core(self.ctab)
        self.contract = contract
        self.cname = cname
        self.trivial = 0
        self.input_terms = {}
        self.escape_facts = []
        self.escaped = []
        self.escaped_objs = {}
        self.exact_class = {}
        self.reraise_stack = []
        self.notes = []
        self.frame_log = []
        self.called_contracts = set()
        self.heap_written = set()
        self.loop_ordinal = 0
        self.lemma_instances_used = set()
        self.def_groups = {}
        self.sdict_facts = {}
        self._concat_all_seen = []
        self.uses_id = False
        self.cur_glob = fi.glob
        self.cur_defcls = fi.cls
        self._bm = None
        self.spec_state = None
        self.set_src = {}
        self.set_iterations = []
        self.dict_known = {}
        self.callee_writes = {}
        self.oos_paths = []
        self.partial_ok = contract.ghost.get("partial", True)

    def contract_allows(self, ecls):
        for names, _ in self.contract.raises + self.contract.may_raise:
            for nm in names:
                if issubclass(ecls, self.exc_class(nm)):
                    return True
        return False

    def concrete_class(self, contract, fi):
        if contract.inst == "@cls":
            return fi.cls          # instantiation for class receivers (kinds["self"] == "cls")
        if contract.inst and (fi.cls is not None or contract.inst in self.spec_names):
            return self.spec_names[contract.inst]
        return fi.cls

    def entry_state(self, contract, fi):
        st = St()
        self.entry_kind_checks = []
        a = fi.node.args
        cls = self.concrete_class(contract, fi)
        params = [p.arg for p in a.posonlyargs + a.args]
        decos = [ast.unparse(d) for d in fi.node.decorator_list]
        is_static = "staticmethod" in decos
        is_clsm = "classmethod" in decos
        env = {}
        for i, p in enumerate(params):
            if i == 0 and fi.cls is not None and not is_static and fi.direct_method:
                if is_clsm:
                    env[p] = PyC(cls)
                    continue
                kind = contract.kinds.get(p)
                if kind == "cls":      # metaclass methods: self is a class object, symbolic
                    v = Val(self.declare("in_" + p), kind="cls", origin=p)
                    v.cls = None
                    env[p] = v
                    self.input_terms[p] = v.t
                    continue
                v = Val(self.declare("in_" + p), kind="obj", cls=cls, origin=p)
                st.assume(f"(and (k_obj {v.t}) (= (class_of (oid {v.t})) {self.ctab.cid(cls)}) (>= (oid {v.t}) 0) (< (oid {v.t}) 1000000))")
                self.exact_class[v.t] = cls
                env[p] = v
                self.input_terms[p] = v.t
                continue
            kind = contract.kinds.get(p)
            if isinstance(kind, str) and kind.startswith("const:"):
                env[p] = PyC(kind[len("const:"):])
                continue
            if isinstance(kind, str) and kind.startswith("class:"):
                env[p] = PyC(self.spec_names[kind[len("class:"):]])      # the parameter is this class object itself
                continue
            kcls = None
            exact = False
            if isinstance(kind, str) and kind.startswith("="):
                kind, exact = kind[1:], True
            if isinstance(kind, str) and kind in self.spec_names:
                kcls = self.spec_names[kind]
                kind = "obj"
            v = Val(self.declare("in_" + p), kind=kind, cls=kcls, origin=p)
            env[p] = v
            self.input_terms[p] = v.t
            if exact and kcls is not None:
                self.exact_class[v.t] = kcls
                st.assume(f"(and (k_obj {v.t}) (= (class_of (oid {v.t})) {self.ctab.cid(kcls)}))")
            if kind:
                self.entry_kind_checks.append((p, (kind, kcls), v.t))
        if a.vararg:
            n = contract.kinds.get("*" + a.vararg.arg)
            if n is None:
                raise OutOfSubset(f"*{a.vararg.arg}: contract must give its length (kinds['*{a.vararg.arg}'])")
            items = []
            for i in range(n):
                v = Val(self.declare(f"in_{a.vararg.arg}_{i}"), origin=f"{a.vararg.arg}[{i}]")
                items.append(v)
                self.input_terms[f"{a.vararg.arg}[{i}]"] = v.t
            env[a.vararg.arg] = PyList(items, "tuple", fresh=False)
        for p, d in zip(a.kwonlyargs, a.kw_defaults):
            kind = contract.kinds.get(p.arg)
            v = Val(self.declare("in_" + p.arg), kind=kind, origin=p.arg)
            env[p.arg] = v
            self.input_terms[p.arg] = v.t
        if a.kwarg:
            if contract.kinds.get("**" + a.kwarg.arg) == "empty":
                env[a.kwarg.arg] = {}
            else:
                raise OutOfSubset("**kwargs parameter")
        # free variables of a nested function: parameters of the enclosing functions are symbolic inputs
        for outer in reversed(fi.enclosing):
            oa = outer.args
            onames = [p.arg for p in oa.posonlyargs + oa.args + oa.kwonlyargs]
            for j, p in enumerate(onames):
                if p in env:
                    continue
                if j == 0 and fi.cls is not None and p in ("self", "cls"):
                    v = Val(self.declare("in_" + p), kind="obj", cls=cls, origin=p)
                    st.assume(f"(and (k_obj {v.t}) (= (class_of (oid {v.t})) {self.ctab.cid(cls)}) (>= (oid {v.t}) 0) (< (oid {v.t}) 1000000))")
                    self.exact_class[v.t] = cls
                else:
                    kind = contract.kinds.get(p)
                    v = Val(self.declare("in_" + p), kind=kind, origin=p)
                    if kind:
                        self.entry_kind_checks.append((p, (kind, None), v.t))
                env[p] = v
                self.input_terms[p] = v.t
        st.env = env
        return st

    # ------------------------------------------------------------------ verify one contract
    def verify(self, contract, timeout=10.0, keep_dir=None, pool=None):
        t0 = time.time()
        try:
            fi = find_function(contract.key)
        except KeyError as e:
            rep = FunctionReport(contract, None)
            rep.out_of_subset = f"missing function: {e}"
            return rep
        rep = FunctionReport(contract, fi)
        self.reset(contract, fi, contract.name)
        try:
            for dn in fi.node.decorator_list:
                dsrc = ast.unparse(dn)
                ok = dsrc in ("property", "staticmethod", "classmethod") or dsrc.endswith(".setter") or dsrc.startswith("reraise(") \
                    or dsrc.startswith("wraps(") or dsrc.startswith("format_checker.register(")
                if not ok:
                    raise OutOfSubset(f"decorator @{dsrc} is not modelled (it may change what the function means)", fi.node)
            st = self.entry_state(contract, fi)
            entry_env = dict(st.env)
            self.entry_env_for_reach = entry_env
            self.spec_state = st
            sp0 = SpecEval(self, entry_env, glob=fi.glob)
            pre = sp0.compile_bool(contract.requires)
            st.assume(pre)
            for pname, hint, t in self.entry_kind_checks:
                self.obl("kind", fi.node, st, self.kind_pred(hint, t), detail=f"parameter {pname} is {hint[0]}")
            if "VREJ" in (contract.lemmas or []):
                self.add_vrej_axioms()
            self.entry_pc = st.pc
            self.cover(fi.node, st, "entry (requires satisfiable)")
            if any(isinstance(x, (ast.Yield, ast.YieldFrom)) for x in ast.walk(fi.node)):
                st.env = {**st.env, "__yield__": PyList([], "list")}      # a generator starts with nothing yielded
            outcomes = self.exec_block(st, fi.node.body)
            if any(isinstance(x, (ast.Yield, ast.YieldFrom)) for x in ast.walk(fi.node)):
                outcomes = [(s, ("return", s.env.get("__yield__", PyList([], "list"))) if (sig is None or sig[0] == "return") else sig)
                            for s, sig in outcomes]
            rep.paths = len(outcomes)
            self.post_obligations(contract, fi, entry_env, outcomes)
        except OutOfSubset as e:
            line = getattr(e.node, "lineno", "?") if e.node is not None else "?"
            rep.out_of_subset = f"{e} (L{line})"
        except RecursionError:
            rep.out_of_subset = "executor recursion"
        rep.oos_paths = list(getattr(self, "oos_paths", []))
        rep.notes = list(self.notes)
        rep.trusted = sorted(self.trusted_used)
        rep.frame_log = list(self.frame_log)
        rep.called = sorted(self.called_contracts)
        rep.lemma_instances = sorted(self.lemma_instances_used)
        rep.trivial = self.trivial
        rep.ctx = (list(self.decls), list(self.globals_assumed), list(self.escape_facts))
        rep.pending = list(self.obls) if rep.out_of_subset is None else []
        rep.input_terms = dict(self.input_terms)
        rep.def_groups = dict(self.def_groups)
        rep.sdict_facts = dict(self.sdict_facts)
        if rep.out_of_subset is None and not getattr(self, "defer", False):
            self.discharge(rep, timeout, keep_dir, pool)
        rep.wall = time.time() - t0
        return rep

    def post_obligations(self, contract, fi, entry_env, outcomes):
        end = fi.node.body[-1]
        for st, sig in outcomes:
            self.spec_state = st
            if sig is None or sig[0] == "return":
                res = PyC(None) if sig is None else sig[1]
                node = end
                env = {**entry_env, "result": res}
                sp_pre = SpecEval(self, entry_env, glob=fi.glob)
                sp = SpecEval(self, env, old_env=entry_env, glob=fi.glob)
                for names, cond in contract.raises:
                    self.spec_state = None
                    c = sp_pre.compile_bool(cond)
                    self.spec_state = st
                    self.obl("post@return", node, st, Not(c), detail=f"returns although `{cond}` (must raise {'/'.join(names)})")
                from .core import split_and
                for part in split_and(sp.compile_bool(contract.returns)):
                    self.obl("post@return", node, st, part, detail=f"ensures {contract.returns}")
                if contract.ghost.get("result_fresh") or contract.ghost.get("result_fresh_unless"):
                    # callers assume the result is a new object (they may write to it without a frame obligation): checked here
                    from .values import CondList as _CL, SDict as _SD
                    if isinstance(res, SymObj) or isinstance(res, (_CL, _SD)):
                        fr = TRUE if not (isinstance(res, SymObj) and getattr(res, "escaped_input", False)) else FALSE
                    elif isinstance(res, PyList):
                        fr = TRUE if res.fresh else FALSE
                    elif isinstance(res, Val):
                        fr = res.fresh if isinstance(res.fresh, str) else (TRUE if res.fresh else FALSE)
                    else:
                        fr = FALSE       # a constant object (module global, class, literal): shared, not new
                    unless = contract.ghost.get("result_fresh_unless")
                    if unless:
                        fr = Or(sp.compile_bool(unless), fr)
                    # (kind "frame": like a write to a non-fresh object, a literally-false goal is a static violation unless the path is dead)
                    self.obl("frame", node, st, fr, detail="the result is a new object (ghost result_fresh"
                             + (f", unless {unless}" if unless else "") + ")")
                if "warns" in contract.ghost:
                    want = SpecEval(self, env, glob=fi.glob).compile_bool(contract.ghost["warns"])
                    n = st.ghost.get("warns", 0)
                    self.obl("post@return", node, st, Eq(want, TRUE if n == 1 else FALSE) if n in (0, 1) else FALSE,
                             detail=f"exactly one warning iff {contract.ghost['warns']} (path issued {n})")
                self.cover(node, st, "return")
            elif sig[0] == "raise":
                exc = sig[1]
                node = exc.node or end
                sp_pre = SpecEval(self, entry_env, glob=fi.glob)
                self.spec_state = None
                allowed = []
                for names, cond in contract.raises + contract.may_raise:
                    if any(issubclass(exc.etype, self.exc_class(nm)) for nm in names):
                        allowed.append(sp_pre.compile_bool(cond))
                self.spec_state = st
                if not allowed:
                    self.obl("safe", node, st, FALSE, detail=f"{exc.etype.__name__} escapes; contract allows only {[n for n, _ in contract.raises + contract.may_raise]}")
                else:
                    self.obl(f"post@raise[{exc.etype.__name__}]", node, st, Or(*allowed),
                             detail=f"raises {exc.etype.__name__} only if allowed condition")
                self.cover(node, st, f"raise {exc.etype.__name__}")
            elif sig[0] == "oos":
                # the path left the subset: its outcome is undecided (never a verdict)
                o = self.obl("post@oos", end, st, FALSE, detail=f"path leaves the verifier's subset: {sig[1]}")
                if o is not None:
                    o.oos = True
                self.oos_paths.append(sig[1])
            else:
                raise OutOfSubset("loop control escaping function")
        self.spec_state = None

    def add_vrej_axioms(self):
        """VREJ[K], one axiom per validator class K with a verified contract Validator.__call__[K]:
             for every validator object s of class K meeting that contract's requires, and every value x,
             vrejects(s, x)  <=>  <the contract's raise condition>.
        vrejects(s, x) is *defined* as "s(x, .) raises ValidationError" (the callers' view Validator.__call__), so each axiom is
        that contract restated -- generated from the registered contract text itself, never written by hand."""
        from .contracts import REG, SpecEval
        key = "statham.schema.validation.base:Validator.__call__"
        prop_ok = None
        self.spec_state = None
        for (k, inst), c in sorted(REG.items(), key=lambda kv: str(kv[0])):
            if k != key or not inst or c.trusted or not c.raises:
                continue
            cls = self.spec_names.get(inst)
            if cls is None:
                continue
            req = c.requires
            i = req.find("is_obj(property_)")
            if i >= 0:
                j = req.find(" and ", req.find("attr_absent(property_, 'parent')"))
                req = (req[:i].rstrip()[:-4] if req[:i].rstrip().endswith(" and") else req[:i]) + (req[j:] if j >= 0 else "")
            s, x = fresh_name("vs"), fresh_name("vx")
            sp = SpecEval(self, {"self": Val(s, kind="obj", cls=cls), "value": Val(x)}, glob=find_function(c.key).glob)
            sp.bound_vars = (s, x)
            try:
                rq = sp.compile_bool(req)
                cond = Or(*[sp.compile_bool(cnd) for _, cnd in c.raises])
            except OutOfSubset as ex:
                self.notes.append(f"VREJ[{inst}] not generated: {ex}")
                continue
            fact = (f"(forall (({s} V) ({x} V)) (! (=> (and (k_obj {s}) (= (class_of (oid {s})) {self.ctab.cid(cls)}) {rq}) "
                    f"(= (vrejects {s} {x}) {cond})) :pattern ((vrejects {s} {x}))))")
            self.globals_assumed.append(fact)
            self.trusted_used.add(f"lemma VREJ[{inst}]: the verified contract Validator.__call__[{inst}] restated for vrejects"
                                  + (" (its _validate contract is bounded-only)" if inst == "MultipleOf" else ""))
        self.use_spec_fun("vrejects")

    def cover(self, node, st, what):
        o = Obligation(f"{self.cname}/cover#{len([x for x in self.obls if x.kind == 'cover']) + 1}@L{getattr(node, 'lineno', 0)}",
                       "cover", getattr(node, "lineno", 0), st.pc, TRUE, None, what, expect="sat")
        self.obls.append(o)

    # ------------------------------------------------------------------ SMT text
    def vc_text(self, o, with_check=True, rep=None):
        decls, glob, esc = rep.ctx if rep is not None else (self.decls, self.globals_assumed, self.escape_facts)
        body = list(decls)
        facts = list(glob + esc) + list(o.pc)
        if o.expect == "unsat" and getattr(self, "slice_facts", True):
            facts = self.relevant(facts, o.goal)
            # the defining equation of a conditional-append list is only needed for index-level reasoning (length, nth);
            # when everything else speaks of the list through membership atoms (lseq R) only, it is dropped (dropping an
            # assumption is sound) -- it is the expensive part for the sequence solvers
            import re as _re2
            # the defining facts of a comprehension result that nothing else on this path mentions (the result was built
            # but the path ends before it is used, e.g. `errors` on the oneOf multiple-match path) are dropped as a group
            groups = getattr(rep, "def_groups", None) if rep is not None else self.def_groups
            again = bool(groups)
            while again:
                again = False
                for r_, g_ in groups.items():
                    if not any(f in g_ for f in facts):
                        continue
                    rest = " ".join(f for f in facts if f not in g_) + " " + o.goal
                    if not _re2.search(r"(?<![\w])" + _re2.escape(r_) + r"(?![\w])", rest):
                        facts = [f for f in facts if f not in g_]
                        again = True
            # a dict with statically known keys is defined entry by entry (27 keyword entries in _serialize_element): only the
            # entries whose key literal the rest of the VC mentions are kept (the size equation always stays: cvc5 is 15x faster with it)
            sd = getattr(rep, "sdict_facts", None) if rep is not None else self.sdict_facts
            if sd:
                entry_facts = {f for info in sd.values() for fs in info["keys"].values() for f in fs}
                admin = {info["others"] for info in sd.values()} | {info["len"] for info in sd.values()}
                rest = " ".join(f for f in facts if f not in entry_facts and f not in admin) + " " + o.goal
                kept = set()
                grew = True
                while grew:
                    grew = False
                    for r_, info in sd.items():
                        for klit, fs in info["keys"].items():
                            if (r_, klit) not in kept and klit in rest:
                                kept.add((r_, klit))
                                rest += " " + " ".join(fs)
                                grew = True
                dropf = set()
                for r_, info in sd.items():
                    for klit, fs in info["keys"].items():
                        if (r_, klit) not in kept:
                            dropf.update(fs)
                if dropf:
                    facts = [f for f in facts if f not in dropf]
            for f in list(facts):
                m = _re2.match(r"\(= (pv_clist_\d+) \(v_list ", f)
                if m:
                    r = m.group(1)
                    rest = " ".join(x for x in facts if x is not f) + " " + o.goal
                    if not _re2.search(r"(?<!\(lseq )" + r + r"(?![\w])", rest):
                        facts.remove(f)
        for f in facts:
            body.append(f"(assert {f})")
        if o.expect == "unsat":
            body.append(f"(assert (not {o.goal}))")
        if with_check:
            body.append("(check-sat)")
        btext = "\n".join(body)
        parts = [smt.PRELUDE.replace(";;CLASS_TABLE;;", self.ctab.smt()), smt.speclib()]
        # optional specification modules: only what the VC mentions / the contract asks for
        contract = rep.contract if rep is not None else self.contract
        if "(rbd " in btext:
            parts.append(smt.spec_module("mod_rbd"))
            for lem in getattr(contract, "lemmas", []) or []:
                parts.append(smt.spec_module("lemma_" + lem))
        if "outcome_of" in btext:
            parts.append(smt.spec_module("mod_outcome"))
            body = [b for b in body if not b.startswith("(declare-fun attr_target ") and not b.startswith("(declare-fun attr_result ") and not b.startswith("(declare-fun attr_error ")]
            btext = "\n".join(body)
        if "MEM-EX" in (getattr(contract, "lemmas", []) or []):
            parts.append(smt.spec_module("mod_mem"))
        if "JSON-INTRO" in (getattr(contract, "lemmas", []) or []):
            parts.append(smt.spec_module("mod_json_intro"))
        if "IS-MEM-NTH" in (getattr(contract, "lemmas", []) or []):
            parts.append(smt.spec_module("mod_ismem_nth"))
        if "DICT-ITEM" in (getattr(contract, "lemmas", []) or []):
            parts.append(smt.spec_module("mod_dict"))
        if "is_json" in btext:
            parts.append(smt.spec_module("mod_json_elem"))
        parts.append(btext)
        return "\n".join(parts) + "\n"

    _sym = None

    def relevant(self, facts, goal):
        """Relevance slicing (dropping assumptions is sound): keep the facts connected to the goal through
        shared run-specific symbols (inputs, fresh constants, attribute functions)."""
        import re as _r
        pat = _r.compile(r"(?<![\w.])(?:pv_[A-Za-z0-9_]+|in_[A-Za-z0-9_]+|attr_[A-Za-z0-9_]+|H_[A-Za-z0-9_]+|AT_[A-Za-z0-9_@]+)")
        app = _r.compile(r"\((attr_[A-Za-z0-9_]+|H_[A-Za-z0-9_]+) (in_[A-Za-z0-9_]+)\)")

        def symbols(t):
            # an attribute of an input is its own symbol: facts about self.minimum say nothing about self.items
            return set(pat.findall(app.sub(lambda m: f"AT_{m.group(1)}@{m.group(2)}", t)))
        syms = [symbols(f) for f in facts]
        live = symbols(goal)
        if not live:
            return facts
        keep = [False] * len(facts)
        # facts about an input object itself (its class / kind: only the bare input symbol occurs) stay relevant to
        # every goal about one of its attributes
        bases = set(_r.findall(r"(?<![\w.])in_[A-Za-z0-9_]+", goal))
        for i, s in enumerate(syms):
            if s and s <= bases:
                keep[i] = True
        changed = True
        while changed:
            changed = False
            bases_now = {m.split("@", 1)[1] for m in live if m.startswith("AT_")} | {m for m in live if m.startswith("in_")}
            for i, s in enumerate(syms):
                if not keep[i] and s and s <= bases_now:
                    keep[i] = True
                    changed = True
            for i, s in enumerate(syms):
                if not keep[i] and (not s or s & live):
                    keep[i] = True
                    if not s <= live:
                        live |= s
                        changed = True
        return [f for f, k in zip(facts, keep) if k]

    def discharge(self, rep, timeout, keep_dir, pool):
        def run(o):
            if getattr(o, "oos", False):
                o.result = smt.Result("unknown", "", 0.0, "path out of subset", [("none", "out-of-subset", 0.0)], "")
                return o
            text = self.vc_text(o, rep=rep)
            if o.expect == "sat":
                r = smt.solve_text(text, timeout=2.0, keep_dir=keep_dir, name=o.name,
                                   order=["z3-5.1.0"], quick_first=False)
            else:
                r = smt.solve_text(text, timeout=timeout, keep_dir=keep_dir, name=o.name)
            o.result = r
            return o
        own = pool is None
        pool = pool or ThreadPoolExecutor(int(os.environ.get("PYVC_JOBS", "12")))
        try:
            done = list(pool.map(run, rep.pending))
        finally:
            if own:
                pool.shutdown()
        for o in done:
            (rep.covers if o.kind == "cover" else rep.obligations).append(o)
        rep.engine = self

    def discharge_many(self, reps, timeout, keep_dir=None, jobs=14):
        """Discharge the obligations of many functions: phase 1 = z3 alone with a short budget, all in parallel;
        phase 2 = the obligations left open, raced on the three solvers with few concurrent races (so that the
        budgets mean the same whether or not the machine is busy); covers last."""
        work = []
        for rep in reps:
            for o in rep.pending:
                work.append((rep, o))
        texts = {}

        def text_of(ro):
            k = id(ro[1])
            if k not in texts:
                texts[k] = self.vc_text(ro[1], rep=ro[0])
            return texts[k]

        def quick(ro):
            rep, o = ro
            o.result = smt.solve_text(text_of(ro), timeout=1.5, keep_dir=keep_dir, name=o.name, order=["z3-5.1.0"], quick_first=False)
            return ro

        # phase 2 has an overall wall budget: on a tree where one change leaves hundreds of obligations open (every instantiation of
        # a widely used contract), racing each of them for the full timeout kept a quick check busy for half an hour; obligations
        # not reached within the budget stay undecided (never a verdict).  The unchanged tree uses a fraction of it.
        p2_deadline = time.time() + (300.0 if timeout <= 20 else 2400.0)

        def full(ro):
            rep, o = ro
            first = o.result.attempts
            if time.time() > p2_deadline:
                o.result.attempts = list(first) + [("none", "phase-2 budget exhausted", 0.0)]
                return ro
            o.result = smt.solve_text(text_of(ro), timeout=timeout, keep_dir=keep_dir, name=o.name, quick_first=False, race_all=True,
                                      order=None)
            o.result.attempts = list(first) + list(o.result.attempts)
            return ro

        def cover(ro):
            rep, o = ro
            o.result = smt.solve_text(text_of(ro), timeout=getattr(self, "cover_timeout", 1.0), keep_dir=keep_dir, name=o.name, order=["z3-5.1.0"], quick_first=False)
            return ro
        # a path that leaves the subset matters only if it is feasible: its obligation (goal false) gets the quick phase, and
        # is discharged when the path condition is refuted (dead path); otherwise it stays "out of subset" (never a verdict)
        work_all = work
        oos = [ro for ro in work if getattr(ro[1], "oos", False)]
        work = [ro for ro in work if not getattr(ro[1], "oos", False)]
        obls = [ro for ro in work if ro[1].kind != "cover"]
        covers = [ro for ro in work if ro[1].kind == "cover"]
        with ThreadPoolExecutor(jobs) as pool:
            list(pool.map(quick, obls + oos))
        for ro in oos:
            if ro[1].result.status != "unsat":
                ro[1].result = smt.Result("unknown", "", 0.0, "path out of subset", [("none", "out-of-subset", 0.0)] + list(ro[1].result.attempts), "")
        hard = [ro for ro in obls if ro[1].result.status not in ("sat", "unsat")]
        with ThreadPoolExecutor(max(1, min(5, jobs // 3))) as pool:
            list(pool.map(full, hard))
        # what is still open gets the whole machine, one obligation at a time, with all three solvers
        left = [ro for ro in hard if ro[1].result.status not in ("sat", "unsat")]
        if left and getattr(self, "final_pass", True):
            self.lean_race = False
            try:
                for ro in left[:6]:
                    full(ro)
            finally:
                self.lean_race = True
        with ThreadPoolExecutor(jobs) as pool:
            list(pool.map(cover, covers))
        for rep, o in work_all:
            (rep.covers if o.kind == "cover" else rep.obligations).append(o)
