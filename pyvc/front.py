"""Front end: locate the real source of a function by qualified name, every run, from the tree
under $STATHAM_REPO.  Nothing is copied: the AST handed to the executor is parsed from the file
the interpreter imports."""
import ast
import hashlib
import importlib
import os
import sys

REPO = os.environ.get("STATHAM_REPO", "/repo")


def ensure_repo_on_path():
    if sys.path[0] != REPO:
        sys.path.insert(0, REPO)
    import statham
    where = os.path.dirname(os.path.dirname(os.path.abspath(statham.__file__)))
    if os.path.realpath(where) != os.path.realpath(REPO):
        raise RuntimeError(f"statham imported from {where}, expected {REPO}")


_trees = {}


def module_tree(modname):
    if modname not in _trees:
        mod = importlib.import_module(modname)
        src = open(mod.__file__, encoding="utf8").read()
        _trees[modname] = (mod, ast.parse(src), src)
    return _trees[modname]


class FuncInfo:
    def __init__(self, key, mod, node, cls, src_segment, path, enclosing=(), direct_method=False):
        self.enclosing = list(enclosing)
        self.direct_method = direct_method
        self.key = key            # "module:Qual.name"
        self.mod = mod
        self.node = node
        self.cls = cls            # defining live class or None
        self.src = src_segment
        self.sha = hashlib.sha256(src_segment.encode()).hexdigest()
        self.path = path

    @property
    def glob(self):
        return vars(self.mod)


def find_function(key):
    """key = 'pkg.mod:Class.method' | 'pkg.mod:func' | 'pkg.mod:outer.inner' (nested def)."""
    modname, qual = key.split(":")
    want_setter = qual.endswith("@setter")
    if want_setter:
        qual = qual[: -len("@setter")]
    mod, tree, src = module_tree(modname)
    parts = qual.split(".")
    node = tree
    cls = None
    live = mod
    enclosing = []
    direct = False
    for i, p in enumerate(parts):
        found = None
        for ch in ast.walk(node) if isinstance(node, (ast.FunctionDef,)) else node.body:
            if isinstance(ch, (ast.FunctionDef, ast.ClassDef)) and ch.name == p and ch is not node:
                if i == len(parts) - 1 and isinstance(ch, ast.FunctionDef):
                    is_setter = any(isinstance(d, ast.Attribute) and d.attr == "setter" for d in ch.decorator_list)
                    if is_setter != want_setter:
                        continue
                found = ch
                break
        if found is None:
            raise KeyError(f"{key}: no definition named {p!r}")
        direct = isinstance(node, ast.ClassDef)
        if isinstance(node, ast.FunctionDef):
            enclosing.append(node)
        node = found
        if isinstance(node, ast.ClassDef):
            live = getattr(live, p)
            cls = live
    if not isinstance(node, ast.FunctionDef):
        raise KeyError(f"{key} is not a function")
    seg = ast.get_source_segment(src, node) or ""
    return FuncInfo(key, mod, node, cls, strip_segment(node), mod.__file__, enclosing, direct)


def strip_segment(node):
    """Canonical text of the function without docstring (what the hash covers)."""
    import copy
    n = copy.deepcopy(node)
    if (n.body and isinstance(n.body[0], ast.Expr) and isinstance(n.body[0].value, ast.Constant)
            and isinstance(n.body[0].value.value, str)):
        n.body = n.body[1:] or [ast.Pass()]
    return ast.unparse(n)


def key_of_function(fn):
    """Live function object -> key (module:qualname with <locals> removed)."""
    fn = getattr(fn, "__func__", fn)
    fn = getattr(fn, "__wrapped__", fn)
    return f"{fn.__module__}:{fn.__qualname__.replace('.<locals>', '')}"
