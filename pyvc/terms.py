"""Term construction helpers over the prelude (pure string building with light simplification)."""
from fractions import Fraction

from . import smt
from .values import Val, PyC, PyList, SymObj, OutOfSubset

TRUE, FALSE = "true", "false"


def And(*xs):
    xs = [x for x in xs if x != TRUE]
    if FALSE in xs:
        return FALSE
    if not xs:
        return TRUE
    if len(xs) == 1:
        return xs[0]
    return "(and " + " ".join(xs) + ")"


def Or(*xs):
    xs = [x for x in xs if x != FALSE]
    if TRUE in xs:
        return TRUE
    if not xs:
        return FALSE
    if len(xs) == 1:
        return xs[0]
    return "(or " + " ".join(xs) + ")"


def Not(x):
    if x == TRUE:
        return FALSE
    if x == FALSE:
        return TRUE
    if x.startswith("(not ") and x.endswith(")") and _balanced(x[5:-1]):
        return x[5:-1]
    return f"(not {x})"


def _balanced(s):
    d = 0
    for i, ch in enumerate(s):
        if ch == "(":
            d += 1
        elif ch == ")":
            d -= 1
            if d == 0 and i != len(s) - 1:
                return False
        elif ch == " " and d == 0:
            return False
    return d == 0


def Implies(a, b):
    if a == TRUE:
        return b
    if a == FALSE or b == TRUE:
        return TRUE
    return f"(=> {a} {b})"


def Ite(c, a, b):
    if c == TRUE:
        return a
    if c == FALSE:
        return b
    if a == b:
        return a
    return f"(ite {c} {a} {b})"


def Eq(a, b):
    if a == b:
        return TRUE
    return f"(= {a} {b})"


# ---- sort coercions

def asV(v):
    if v.sort == "V":
        return v.t
    if v.sort == "B":
        if v.t == TRUE:
            return "(v_bool true)"
        if v.t == FALSE:
            return "(v_bool false)"
        return f"(v_bool {v.t})"
    if v.sort == "I":
        return f"(v_int {v.t})"
    if v.sort == "S":
        return f"(v_str {v.t})"
    raise ValueError(v.sort)


def asB(v):
    """Truthiness as a Bool term."""
    if v.sort == "B":
        return v.t
    if v.sort == "I":
        return Not(Eq(v.t, "0"))
    if v.sort == "S":
        return f"(> (str.len {v.t}) 0)"
    t = v.t
    if t == "(v_bool true)":
        return TRUE
    if t in ("(v_bool false)", "v_none", "v_np"):
        return FALSE
    if t.startswith("(v_bool ") and _balanced(t):
        return t[8:-1]
    if v.kind == "bool":
        return f"(bval {t})"
    return f"(truthy {t})"


def asI(v):
    if v.sort == "I":
        return v.t
    if v.sort == "B":
        return Ite(v.t, "1", "0")
    if v.sort == "V":
        if v.t.startswith("(v_int ") and _balanced(v.t):
            return v.t[7:-1]
        return f"(ival {v.t})"
    raise ValueError(v.sort)


def asS(v):
    if v.sort == "S":
        return v.t
    if v.sort == "V":
        if v.t.startswith("(v_str ") and _balanced(v.t):
            return v.t[7:-1]
        return f"(sval {v.t})"
    raise ValueError(v.sort)


def mkB(t):
    return Val(t, "B")


def mkI(t):
    return Val(t, "I")


def mkS(t):
    return Val(t, "S")


def seq_of_terms(ts):
    if not ts:
        return "(as seq.empty (Seq V))"
    if len(ts) == 1:
        return f"(seq.unit {ts[0]})"
    return "(seq.++ " + " ".join(f"(seq.unit {t})" for t in ts) + ")"


def const_term(obj, ctab):
    """Encode a live Python constant as a V term (or raise OutOfSubset)."""
    from statham.schema.constants import NotPassed
    if obj is None:
        return "v_none"
    if obj is True:
        return "(v_bool true)"
    if obj is False:
        return "(v_bool false)"
    if isinstance(obj, NotPassed):
        return "v_np"
    if isinstance(obj, int):
        return f"(v_int {smt.sint(obj)})"
    if isinstance(obj, float):
        if obj != obj or obj in (float("inf"), float("-inf")):
            raise OutOfSubset("non-finite float constant")
        return f"(v_float {smt.sreal(Fraction(obj))})"
    if isinstance(obj, str):
        return f"(v_str {smt.sstr(obj)})"
    if isinstance(obj, (list, tuple)):
        items = seq_of_terms([const_term(x, ctab) for x in obj])
        return f"({'v_list' if isinstance(obj, list) else 'v_tuple'} {items})"
    if isinstance(obj, (set, frozenset)):
        items = seq_of_terms([const_term(x, ctab) for x in sorted(obj, key=repr)])
        return f"(v_set {items})"
    if isinstance(obj, dict) and all(isinstance(k, str) for k in obj):
        items = seq_of_terms([f"(v_pair {smt.sstr(k)} {const_term(v, ctab)})" for k, v in obj.items()])
        return f"(v_dict {items})"
    if isinstance(obj, type):
        return f"(v_cls {ctab.cid(obj)})"
    if type(obj) is object:
        return f"(v_sent {ctab.sentinel(obj)})"
    raise OutOfSubset(f"cannot encode constant {obj!r:.60}")


KIND_OF_PY = {type(None): "none", bool: "bool", int: "int", float: "float", str: "str", list: "list",
              tuple: "tuple", dict: "dict", set: "set", frozenset: "set"}


def isinstance_term(xt, cls, ctab):
    """isinstance(x, cls) for a *known* class, written with kind testers (much easier for the solvers than type ids)."""
    from statham.schema.constants import NotPassed
    if cls is NotPassed:
        return f"(k_np {xt})"
    if cls is type(None):
        return f"(k_none {xt})"
    if cls is bool:
        return f"(k_bool {xt})"
    if cls is int:
        return f"(or (k_int {xt}) (k_bool {xt}))"
    if cls is float:
        return f"(k_float {xt})"
    if cls is str:
        return f"(k_str {xt})"
    if cls is tuple:
        return f"(k_tuple {xt})"
    if cls is set:
        return f"(k_set {xt})"
    if cls is list:
        return f"(or (k_list {xt}) (and (k_obj {xt}) (subclass (class_of (oid {xt})) T_LIST)))"
    if cls is dict:
        return f"(or (k_dict {xt}) (and (k_obj {xt}) (subclass (class_of (oid {xt})) T_DICT)))"
    if cls is object:
        return TRUE
    return f"(py_isinstance {xt} (v_cls {ctab.cid(cls)}))"


def isinstance_any_term(xt, classes, ctab):
    return Or(*[isinstance_term(xt, c, ctab) for c in classes])


def mseq(t):
    """Sequence term used inside identity-membership (ismem) atoms: `seqof` is a macro containing ite, which may not occur in
    E-matching patterns, so membership atoms are written over the declared alias `lseq` (lseq x = seqof x, spec/mod_ismem.smt2)."""
    while t.startswith("(seqof (v_list ") and t.endswith("))") and _balanced(t[7:-1]) and _balanced(t[15:-2]):
        t = t[15:-2]
    if t.startswith("(seqof ") and t.endswith(")") and _balanced(t):
        return "(lseq " + t[7:-1] + ")"
    return t
