"""Expression evaluation (code mode): returns a list of (state, value | Exc) — one per path."""
import ast
import builtins
import inspect

from . import smt
from .terms import (mseq, And, Or, Not, Implies, Ite, Eq, asV, asB, asI, asS, mkB, mkI, mkS, TRUE, FALSE,
                    const_term, seq_of_terms, KIND_OF_PY)
from .values import (CondList, Val, PyC, PyList, SymObj, SDict, Closure, BM, Exc, OutOfSubset, fresh_name)


def is_exc(v):
    return isinstance(v, Exc)


class BoolSwitch:
    """{True: a, False: b} display: subscripted by a (possibly symbolic) bool."""
    def __init__(self, table):
        self.table = table


class ExprMixin:
    # ------------------------------------------------------------ helpers
    def raising(self, st, val, excs, node):
        """excs: list of (exception class, condition term).  Forks the raising paths that can be
        caught/allowed here; for the others emits a safe@op obligation; continues on the ok path."""
        out = []
        for ecls, cond in excs:
            if cond == FALSE:
                continue
            if self.exc_expected(ecls):
                s2 = st.fork().assume(cond)
                out.append((s2, Exc(ecls, node=node)))
                st = st.assume(Not(cond))
            else:
                self.obl("safe", node, st, Not(cond), detail=f"{ecls.__name__} at {self.src_of(node)}")
                st = st.assume(Not(cond), fact=True)      # a consequence of the safe obligation, not a branch condition
        out.append((st, val))
        return out

    def exc_expected(self, ecls):
        for handler_types in self.catch_stack:
            if handler_types is None or any(issubclass(ecls, h) for h in handler_types):
                return True
        return self.contract_allows(ecls)

    def src_of(self, node):
        try:
            return ast.unparse(node)[:60]
        except Exception:
            return "?"

    def ev_seq(self, st, nodes):
        """Evaluate nodes left to right. Returns list of (st, [vals]) or (st, Exc)."""
        paths = [(st, [])]
        for n in nodes:
            nxt = []
            for s, acc in paths:
                if is_exc(acc):
                    nxt.append((s, acc))
                    continue
                for s2, v in self.ev(s, n):
                    nxt.append((s2, v if is_exc(v) else acc + [v]))
            paths = nxt
        return paths

    def truth(self, v):
        """Bool term for truthiness of any python-side value."""
        if isinstance(v, PyC):
            return TRUE if v.obj else FALSE
        if isinstance(v, PyList):
            return TRUE if v.items else FALSE
        if isinstance(v, SymObj):
            if "__bool__" in {k for c in v.cls.__mro__ for k in vars(c)}:
                return asB(self.lift(v))
            if issubclass(v.cls, dict):
                raise OutOfSubset("truthiness of fresh dict subclass")
            return TRUE
        if isinstance(v, (Closure, BM)):
            return TRUE
        return asB(v)

    def branch(self, st, cond):
        """Split a state on a Bool term. Returns [(st_true|None), (st_false|None)]."""
        if cond == TRUE:
            return st, None
        if cond == FALSE:
            return None, st
        return st.fork().assume(cond), st.fork().assume(Not(cond))

    # ------------------------------------------------------------ path merging
    def try_merge(self, s1, v1, s2, v2):
        """Join two paths that forked on one condition: values become ite, path conditions a disjunction.
        Returns (state, value) or None when the paths cannot be joined."""
        g1 = {k: v for k, v in s1.ghost.items() if not (isinstance(k, tuple) and k[0] == "O")}
        g2 = {k: v for k, v in s2.ghost.items() if not (isinstance(k, tuple) and k[0] == "O")}
        if g1 != g2:
            return None
        n = 0
        while n < len(s1.pc) and n < len(s2.pc) and s1.pc[n] == s2.pc[n]:
            n += 1
        r1, r2 = s1.pc[n:], s2.pc[n:]
        if not r1 or not r2:
            return None
        d = r1[0]
        if not (r2[0] == Not(d) or d == Not(r2[0])):
            return None

        def join(a, b):
            if a is b:
                return a
            if isinstance(a, PyC) and isinstance(b, PyC) and a.obj is b.obj:
                return a
            if isinstance(a, SDict) and isinstance(b, SDict) and a.term is None and b.term is None:
                ent = {}
                for k in list(a.entries) + [k for k in b.entries if k not in a.entries]:
                    ca, va = a.entries.get(k, (FALSE, None))
                    cb, vb = b.entries.get(k, (FALSE, None))
                    if va is None:
                        ent[k] = (And(Not(d), cb), vb)
                    elif vb is None:
                        ent[k] = (And(d, ca), va)
                    else:
                        ent[k] = (Ite(d, ca, cb), join(va, vb))
                return SDict(ent)
            if isinstance(a, (PyList, CondList)) and isinstance(b, (PyList, CondList)) and getattr(a, "kind", "list") == "list" \
                    and getattr(b, "kind", "list") == "list" and (isinstance(a, CondList) or isinstance(b, CondList) or len(a.items) != len(b.items)):
                # lists grown by appends on the two sides of a branch: common prefix, then each side's extra entries under
                # that side's condition (the two groups are mutually exclusive, so their relative order is immaterial)
                ea = a.entries if isinstance(a, CondList) else [(TRUE, x) for x in a.items]
                eb = b.entries if isinstance(b, CondList) else [(TRUE, x) for x in b.items]
                n = 0
                while n < len(ea) and n < len(eb) and ea[n][0] == eb[n][0] and ea[n][1] is eb[n][1]:
                    n += 1
                return CondList(ea[:n] + [(And(d, c_), x) for c_, x in ea[n:]] + [(And(Not(d), c_), x) for c_, x in eb[n:]])
            if isinstance(a, (Closure, BM)) or isinstance(b, (Closure, BM)) or isinstance(a, dict) or isinstance(b, dict):
                raise OutOfSubset("join of python-side values")
            if isinstance(a, SymObj) or isinstance(b, SymObj):
                if isinstance(a, SymObj) and isinstance(b, SymObj):
                    raise OutOfSubset("join of distinct fresh objects")
            la, lb = self.lift(a), self.lift(b)
            if la.sort == lb.sort and la.sort != "V":
                return Val(Ite(d, la.t, lb.t), la.sort)
            kind = la.kind if la.kind == lb.kind else None
            cls = la.cls if la.cls is lb.cls else None
            origin = la.origin if la.origin == lb.origin else (la.origin if lb.fresh == TRUE else (lb.origin if la.fresh == TRUE else None))
            return Val(Ite(d, asV(la), asV(lb)), kind=kind, cls=cls, fresh=Ite(d, la.fresh, lb.fresh), origin=origin)
        try:
            env = {}
            for k in s1.env:
                if k in s2.env:
                    env[k] = join(s1.env[k], s2.env[k])
            if ("__yield__" in s1.env) != ("__yield__" in s2.env):
                # the generator's accumulated output: unbound means nothing yielded so far on that side
                env["__yield__"] = join(s1.env.get("__yield__", PyList([], "list")), s2.env.get("__yield__", PyList([], "list")))
            if set(s1.env) != set(s2.env):
                # a name bound on one side only stays unbound after the join (reading it would be an error anyway)
                pass
            v = None
            if v1 is not None or v2 is not None:
                v = join(v1, v2)
        except OutOfSubset:
            return None
        s = s1.fork()
        s.env = env
        try:
            for k in set(s1.ghost) | set(s2.ghost):
                if isinstance(k, tuple) and k[0] == "O":
                    a1, a2 = s1.ghost.get(k), s2.ghost.get(k)
                    if a1 is None or a2 is None:
                        s.ghost[k] = a1 if a1 is not None else a2
                    else:
                        s.ghost[k] = {name: join(a1[name], a2[name]) for name in a1 if name in a2}
        except OutOfSubset:
            return None
        s.pc = s1.pc[:n] + (Or(And(*r1), And(*r2)),)
        return s, v

    def merge_results(self, results):
        """Merge the non-exceptional results of an expression that forked (keeps exceptional ones apart)."""
        normal = [(s, v) for s, v in results if not is_exc(v)]
        exc = [(s, v) for s, v in results if is_exc(v)]
        while len(normal) >= 2:
            merged = None
            for i in range(len(normal) - 1):
                m = self.try_merge(normal[i][0], normal[i][1], normal[i + 1][0], normal[i + 1][1])
                if m is not None:
                    merged = (i, m)
                    break
            if merged is None:
                break
            i, m = merged
            normal[i:i + 2] = [m]
        return exc + normal

    # ------------------------------------------------------------ dispatcher
    def ev(self, st, n):
        m = getattr(self, "e_" + type(n).__name__, None)
        if m is None:
            raise OutOfSubset(f"expression {type(n).__name__}", n)
        return m(st, n)

    def e_Constant(self, st, n):
        return [(st, PyC(n.value))]

    def e_Name(self, st, n):
        if n.id in st.env:
            return [(st, st.env[n.id])]
        if n.id in self.cur_glob:
            return [(st, PyC(self.cur_glob[n.id]))]
        if hasattr(builtins, n.id):
            return [(st, PyC(getattr(builtins, n.id)))]
        raise OutOfSubset(f"unbound name {n.id}", n)

    def e_Tuple(self, st, n):
        return self._display(st, n, "tuple")

    def e_List(self, st, n):
        return self._display(st, n, "list")

    def e_Set(self, st, n):
        return self._display(st, n, "set")

    def _display(self, st, n, kind):
        out = []
        plain = [e.value if isinstance(e, ast.Starred) else e for e in n.elts]
        for s, vals in self.ev_seq(st, plain):
            if is_exc(vals):
                out.append((s, vals))
                continue
            items = []
            symbolic_tail = None
            ok = True
            for e, v in zip(n.elts, vals):
                if isinstance(e, ast.Starred):
                    if isinstance(v, PyList):
                        items.extend(v.items)
                    elif isinstance(v, PyC) and isinstance(v.obj, (list, tuple)):
                        items.extend(PyC(x) for x in v.obj)
                    else:
                        ok = False
                else:
                    items.append(v)
            if ok:
                out.append((s, PyList(items, kind)))
            else:
                # symbolic splice: build a sequence term
                parts = []
                for e, v in zip(n.elts, vals):
                    if isinstance(e, ast.Starred):
                        parts.append(f"(seqof {asV(self.lift(v))})")
                    else:
                        parts.append(f"(seq.unit {asV(self.lift(v))})")
                ctor = {"list": "v_list", "tuple": "v_tuple", "set": "v_set"}[kind]
                t = parts[0] if len(parts) == 1 else "(seq.++ " + " ".join(parts) + ")"
                out.append((s, Val(f"({ctor} {t})", kind=kind, fresh=TRUE)))
        return out

    def e_Dict(self, st, n):
        if n.keys and all(isinstance(k, ast.Constant) and isinstance(k.value, bool) for k in n.keys) and len(n.keys) == 2:
            # {True: a, False: b}: a two-way switch, kept python-side
            out = []
            for s, vals in self.ev_seq(st, list(n.values)):
                out.append((s, vals if is_exc(vals) else BoolSwitch({k.value: v for k, v in zip(n.keys, vals)})))
            return out
        if all(k is not None and isinstance(k, ast.Constant) and isinstance(k.value, str) for k in n.keys):
            out = []
            for s, vals in self.ev_seq(st, list(n.values)):
                out.append((s, vals if is_exc(vals) else SDict({k.value: (TRUE, v) for k, v in zip(n.keys, vals)})))
            return out
        # {k: v, **d}: association sequence; later keys override earlier ones (dmerge axioms)
        nodes = []
        for k, v in zip(n.keys, n.values):
            if k is not None:
                nodes.append(k)
            nodes.append(v)
        out = []
        for s, vals in self.ev_seq(st, nodes):
            if is_exc(vals):
                out.append((s, vals))
                continue
            it = iter(vals)
            cur = None   # current dict term
            pend = []
            for k in n.keys:
                if k is None:
                    d = self.lift(next(it))
                    if pend:
                        cur = self.dict_merge(s, cur, f"(v_dict {seq_of_terms(pend)})")
                        pend = []
                    cur = self.dict_merge(s, cur, asV(d))
                else:
                    kv = self.lift(next(it))
                    vv = self.lift(next(it))
                    pend.append(f"(v_pair {asS(kv)} {asV(vv)})")
            if pend or cur is None:
                lit = f"(v_dict {seq_of_terms(pend)})"
                if cur is None:
                    keys = [k.value for k in n.keys if isinstance(k, ast.Constant)]
                    if len(keys) != len(set(keys)):
                        raise OutOfSubset("dict display with repeated constant keys", n)
                    cur = lit
                else:
                    cur = self.dict_merge(s, cur, lit)
            out.append((s, Val(cur, kind="dict", fresh=TRUE)))
        return out

    def dict_merge(self, st, a, b):
        """{**a, **b} as a fresh dict constant with the library axioms of merge."""
        if a is None:
            # {**b}: a copy, equal as a value
            return b
        r = self.fresh_val("merge", kind="dict")
        k = fresh_name("k")
        st.assume(f"(dict_wf {r.t})")
        st.assume(f"(forall (({k} String)) (! (= (dval {r.t} {k}) (ite (dhas {b} {k}) (dval {b} {k}) (dval {a} {k}))) :pattern ((dval {r.t} {k}))))")
        st.assume(f"(<= (seq.len (ditems {r.t})) (+ (seq.len (ditems {a})) (seq.len (ditems {b}))))")
        st.assume(f"(>= (seq.len (ditems {r.t})) (seq.len (ditems {a})))")
        st.assume(f"(>= (seq.len (ditems {r.t})) (seq.len (ditems {b})))")
        j, q = fresh_name("mj"), fresh_name("mq")
        ib, ia, ir = f"(ditems {b})", f"(ditems {a})", f"(ditems {r.t})"
        # item-level facts (same library semantics, stated on items so that they trigger on item terms):
        # every item of b is an item of the result; every item of the result comes from b, or from a under a key b lacks
        # (the position in the result is a Skolem function of the position in b: an existential under the quantifier left
        # `Properties.__call__/post@return` undecided in all three solvers at 90 s; with the function cvc5 decides it at once)
        pos = self.declare_fun(fresh_name("mpos"), ["Int"], "Int")
        qp = f"({pos} {j})"
        st.assume(f"(forall (({j} Int)) (! (=> (and (dict_wf {b}) (<= 0 {j}) (< {j} (seq.len {ib}))) (and (<= 0 {qp}) (< {qp} (seq.len {ir})) "
                  f"(= (pkey (seq.nth {ir} {qp})) (pkey (seq.nth {ib} {j}))) (= (pval (seq.nth {ir} {qp})) (pval (seq.nth {ib} {j}))))) :pattern ((seq.nth {ib} {j})) :pattern ({qp})))")
        srcb = self.declare_fun(fresh_name("msrcb"), ["Int"], "Int")
        srca = self.declare_fun(fresh_name("msrca"), ["Int"], "Int")
        jb, ja = f"({srcb} {q})", f"({srca} {q})"
        st.assume(f"(forall (({q} Int)) (! (=> (and (dict_wf {a}) (dict_wf {b}) (<= 0 {q}) (< {q} (seq.len {ir}))) (or "
                  f"(and (<= 0 {jb}) (< {jb} (seq.len {ib})) (= (pkey (seq.nth {ir} {q})) (pkey (seq.nth {ib} {jb}))) (= (pval (seq.nth {ir} {q})) (pval (seq.nth {ib} {jb})))) "
                  f"(and (<= 0 {ja}) (< {ja} (seq.len {ia})) (not (dhas {b} (pkey (seq.nth {ia} {ja})))) (= (pkey (seq.nth {ir} {q})) (pkey (seq.nth {ia} {ja}))) (= (pval (seq.nth {ir} {q})) (pval (seq.nth {ia} {ja})))))) :pattern ((seq.nth {ir} {q}))))")
        self.trusted_used.add("dict merge {**a, **b}: lookup prefers b, then a; size bounds; items of b carried over, every item from b or from a (library axiom)")
        return r.t

    def e_JoinedStr(self, st, n):
        nodes = [v.value for v in n.values if isinstance(v, ast.FormattedValue)]
        out = []
        for s, vals in self.ev_seq(st, nodes):
            if is_exc(vals):
                out.append((s, vals))
                continue
            it = iter(vals)
            parts = []
            for v in n.values:
                if isinstance(v, ast.FormattedValue):
                    x = next(it)
                    parts.append(self.str_image(x, repr_=(v.conversion == 114)))
                else:
                    parts.append(smt.sstr(v.value))
            t = parts[0] if len(parts) == 1 else "(str.++ " + " ".join(parts) + ")" if parts else '""'
            out.append((s, mkS(t)))
        return out

    def str_image(self, x, repr_=False):
        if isinstance(x, PyC) and isinstance(x.obj, (str, int)) and not isinstance(x.obj, bool):
            return smt.sstr(repr(x.obj) if repr_ else str(x.obj))
        try:
            v = self.lift(x)
        except OutOfSubset:
            return smt.sstr("<?>") if False else self.fresh_val("str", sort="S").t
        if v.sort == "S" and not repr_:
            return v.t
        if v.kind == "str" and not repr_:
            return asS(v)
        return f"({'py_repr' if repr_ else 'py_str'} {asV(v)})"

    def e_FormattedValue(self, st, n):
        raise OutOfSubset("bare FormattedValue", n)

    def e_Lambda(self, st, n):
        return [(st, Closure(n, st.env, self.cur_glob, name="<lambda>"))]

    def e_IfExp(self, st, n):
        out = []
        for s, c in self.ev(st, n.test):
            if is_exc(c):
                out.append((s, c))
                continue
            t, f = self.branch(s, self.truth(c))
            if t is not None:
                out.extend(self.ev(t, n.body))
            if f is not None:
                out.extend(self.ev(f, n.orelse))
        return self.merge_results(out)

    def e_BoolOp(self, st, n):
        def go(s, idx):
            res = []
            for s1, v in self.ev(s, n.values[idx]):
                if is_exc(v) or idx == len(n.values) - 1:
                    res.append((s1, v))
                    continue
                t, f = self.branch(s1, self.truth(v))
                if isinstance(n.op, ast.And):
                    if f is not None:
                        res.append((f, v))
                    if t is not None:
                        res.extend(go(t, idx + 1))
                else:
                    if t is not None:
                        res.append((t, v))
                    if f is not None:
                        res.extend(go(f, idx + 1))
            return res
        return self.merge_results(go(st, 0))

    def e_UnaryOp(self, st, n):
        out = []
        for s, v in self.ev(st, n.operand):
            if is_exc(v):
                out.append((s, v))
            elif isinstance(n.op, ast.Not):
                out.append((s, mkB(Not(self.truth(v)))))
            elif isinstance(n.op, ast.USub):
                lv = self.lift(v)
                if lv.sort == "I" or lv.kind == "int":
                    out.append((s, mkI(f"(- {asI(lv)})")))
                else:
                    raise OutOfSubset("unary minus on non-int", n)
            else:
                raise OutOfSubset("unary op", n)
        return out

    def e_Compare(self, st, n):
        out = []
        for s, vals in self.ev_seq(st, [n.left] + list(n.comparators)):
            if is_exc(vals):
                out.append((s, vals))
                continue
            if len(n.ops) != 1:
                raise OutOfSubset("chained comparison", n)
            out.extend(self.compare(s, n.ops[0], vals[0], vals[1], n))
        return out

    def compare(self, st, op, a, b, node):
        # identity
        if isinstance(op, (ast.Is, ast.IsNot)):
            t = self.identical(a, b)
            return [(st, mkB(t if isinstance(op, ast.Is) else Not(t)))]
        if isinstance(op, (ast.In, ast.NotIn)):
            return self.contains(st, b, a, node, negate=isinstance(op, ast.NotIn))
        if isinstance(op, (ast.Eq, ast.NotEq)):
            res = self.equals(st, a, b, node)
            if isinstance(op, ast.NotEq):
                res = [(s, v if is_exc(v) else mkB(Not(asB(v)))) for s, v in res]
            return res
        la, lb = self.lift(a), self.lift(b)
        if la.sort == "I" and lb.sort == "I":
            sym = {ast.Lt: "<", ast.LtE: "<=", ast.Gt: ">", ast.GtE: ">="}[type(op)]
            return [(st, mkB(f"({sym} {la.t} {lb.t})"))]
        ta, tb = asV(la), asV(lb)
        if isinstance(op, ast.Lt):
            t = f"(py_lt {ta} {tb})"
        elif isinstance(op, ast.LtE):
            t = f"(py_le {ta} {tb})"
        elif isinstance(op, ast.Gt):
            t = f"(py_lt {tb} {ta})"
        else:
            t = f"(py_le {tb} {ta})"
        if (la.kind in ("int", "float", "bool") and lb.kind in ("int", "float", "bool")):
            exc = FALSE
        else:
            exc = f"(cmp_exc {ta} {tb})"
        return self.raising(st, mkB(t), [(TypeError, exc)], node)

    def identical(self, a, b):
        if isinstance(a, PyC) and isinstance(b, PyC):
            return TRUE if a.obj is b.obj else FALSE
        if isinstance(a, SymObj) and isinstance(b, SymObj):
            return TRUE if a is b else FALSE
        if isinstance(a, SymObj) or isinstance(b, SymObj):
            so, other = (a, b) if isinstance(a, SymObj) else (b, a)
            if isinstance(other, PyC):
                return FALSE
            # a fresh object is never identical to a pre-existing value
            ot = self.lift(other)
            if so.term is None:
                return FALSE
            return Eq(so.term, asV(ot))
        la, lb = self.lift(a), self.lift(b)
        # identity of containers is not tracked; only scalars/singletons/objects are compared by `is`
        for x in (la, lb):
            if x.kind in ("list", "dict", "set", "tuple"):
                raise OutOfSubset("identity test on containers")
        return Eq(asV(la), asV(lb))

    def equals(self, st, a, b, node):
        """a == b with CPython semantics on the modelled domain."""
        if isinstance(a, PyC) and isinstance(b, PyC):
            try:
                return [(st, mkB(TRUE if a.obj == b.obj else FALSE))]
            except Exception:
                pass
        la, lb = self.lift(a), self.lift(b)
        if la.sort == "I" and lb.sort == "I":
            return [(st, mkB(Eq(la.t, lb.t)))]
        if la.sort == "S" and lb.sort == "S":
            return [(st, mkB(Eq(la.t, lb.t)))]
        if la.sort == "B" and lb.sort == "B":
            return [(st, mkB(Eq(la.t, lb.t)))]
        return [(st, mkB(f"(py_eq {asV(la)} {asV(lb)})"))]

    def contains(self, st, container, x, node, negate=False):
        def fin(t):
            return mkB(Not(t) if negate else t)
        if isinstance(container, SDict) and container.term is None and isinstance(x, PyC) and isinstance(x.obj, str):
            return [(st, fin(container.entries.get(x.obj, (FALSE, None))[0]))]
        if isinstance(container, PyList):
            parts = []
            for it in container.items:
                for s2, r in self.equals(st, it, x, node):
                    parts.append(asB(r))
            return [(st, fin(Or(*parts)))]
        if isinstance(container, PyC) and isinstance(container.obj, (tuple, list, set, frozenset, dict)) \
                and isinstance(x, PyC):
            return [(st, fin(TRUE if x.obj in container.obj else FALSE))]
        if isinstance(container, PyC) and isinstance(container.obj, (set, frozenset, tuple, list)) and \
                all(isinstance(e, str) for e in container.obj):
            lx = self.lift(x)
            parts = [Eq(asV(lx), const_term(e, self.ctab)) for e in sorted(container.obj)]
            return [(st, fin(Or(*parts)))]
        # objects with __contains__: by contract
        cls = getattr(container, "cls", None)
        if cls is not None and not isinstance(container, PyC) and hasattr(cls, "__contains__") \
                and cls.__module__.startswith("statham") and "__contains__" in {k for c in cls.__mro__ if c.__module__.startswith("statham") for k in vars(c)}:
            fn = inspect.getattr_static(cls, "__contains__")
            res = self.call_function(st, fn, [container, x], {}, node, selfcls=cls)
            return [(s, r if is_exc(r) else fin(self.truth(r))) for s, r in res]
        lc, lx = self.lift(container), self.lift(x)
        if lc.kind == "dict" and (lx.sort == "S" or lx.kind == "str"):
            return [(st, fin(f"(dhas {asV(lc)} {asS(lx)})"))]
        t = f"(py_contains {asV(lc)} {asV(lx)})"
        if lc.kind in ("list", "tuple", "set", "dict") or (lc.kind == "str" and lx.kind == "str"):
            return [(st, fin(t))]
        return self.raising(st, fin(t), [(TypeError, f"(contains_exc {asV(lc)} {asV(lx)})")], node)

    def e_BinOp(self, st, n):
        out = []
        for s, vals in self.ev_seq(st, [n.left, n.right]):
            if is_exc(vals):
                out.append((s, vals))
                continue
            out.extend(self.binop(s, n.op, vals[0], vals[1], n))
        return out

    def binop(self, st, op, a, b, node):
        if isinstance(a, PyC) and isinstance(b, PyC) and isinstance(a.obj, (int, str, tuple)) \
                and isinstance(b.obj, (int, str, tuple)) and not isinstance(op, (ast.Div, ast.Mod, ast.FloorDiv)):
            import operator
            f = {ast.Add: operator.add, ast.Sub: operator.sub, ast.Mult: operator.mul, ast.BitOr: operator.or_,
                 ast.BitAnd: operator.and_}.get(type(op))
            if f:
                try:
                    return [(st, PyC(f(a.obj, b.obj)))]
                except TypeError:
                    pass
        if isinstance(op, ast.Add) and isinstance(a, PyList) and isinstance(b, PyList) and a.kind == b.kind:
            return [(st, PyList(a.items + b.items, a.kind))]
        if isinstance(op, (ast.BitOr, ast.BitAnd, ast.Sub)) and self._is_setlike(a) and self._is_setlike(b):
            return self.set_op(st, op, a, b, node)
        la, lb = self.lift(a), self.lift(b)
        ka, kb = la.kind, lb.kind
        if isinstance(op, ast.Add):
            if ka == "str" and kb == "str":
                return [(st, mkS(f"(str.++ {asS(la)} {asS(lb)})"))]
            if ka in ("list", "tuple") and kb == ka:
                ctor = "v_list" if ka == "list" else "v_tuple"
                cat = f"({ctor} (seq.++ (seqof {asV(la)}) (seqof {asV(lb)})))"
                r = self.fresh_val("cat", kind=ka)
                r.fresh = TRUE
                q = fresh_name("q")
                sa, sb, sr = f"(seqof {asV(la)})", f"(seqof {asV(lb)})", f"(seqof {r.t})"
                st.assume(Eq(r.t, cat), fact=True)
                st.assume(f"(= (seq.len {sr}) (+ (seq.len {sa}) (seq.len {sb})))", fact=True)
                st.assume(f"(forall (({q} Int)) (! (=> (and (<= 0 {q}) (< {q} (seq.len {sr}))) (= (seq.nth {sr} {q}) (ite (< {q} (seq.len {sa})) (seq.nth {sa} {q}) (seq.nth {sb} (- {q} (seq.len {sa})))))) :pattern ((seq.nth {sr} {q}))))", fact=True)
                if ka == "list":
                    # identity membership distributes over concatenation (IS-MEM)
                    x = fresh_name("x")
                    st.assume(f"(forall (({x} V)) (! (= (ismem (lseq {r.t}) {x}) (or (ismem {mseq(sa)} {x}) (ismem {mseq(sb)} {x}))) :pattern ((ismem (lseq {r.t}) {x}))))", fact=True)
                return [(st, r)]
            if ka == "int" and kb == "int":
                return [(st, mkI(f"(+ {asI(la)} {asI(lb)})"))]
            if {ka, kb} == {"str", None} and (la if ka is None else lb).sort == "V":
                # str + x / x + str with x of statically unknown kind: a str concatenation if x is a str, TypeError otherwise
                # (str defines neither __add__ nor __radd__ for anything else; closed class table: no statham class defines them)
                u = la if ka is None else lb
                paths = self.raising(st, None, [(TypeError, Not(f"(k_str {asV(u)})"))], node)
                s_ok = paths[-1][0]
                ta = asS(la) if ka == "str" else f"(sval {asV(la)})"
                tb = asS(lb) if kb == "str" else f"(sval {asV(lb)})"
                return paths[:-1] + [(s_ok, mkS(f"(str.++ {ta} {tb})"))]
        if isinstance(op, ast.Sub) and ka == "int" and kb == "int":
            return [(st, mkI(f"(- {asI(la)} {asI(lb)})"))]
        if isinstance(op, ast.Mult) and ka == "int" and kb == "int":
            return [(st, mkI(f"(* {asI(la)} {asI(lb)})"))]
        h = getattr(self, "binop_hook", None)
        if h:
            r = h(st, op, la, lb, node)
            if r is not None:
                return r
        raise OutOfSubset(f"binary {type(op).__name__} on {ka}/{kb}", node)

    def _is_setlike(self, v):
        return (isinstance(v, PyList) and v.kind == "set") or \
               (isinstance(v, PyC) and isinstance(v.obj, (set, frozenset))) or \
               (isinstance(v, Val) and v.kind == "set")

    def set_op(self, st, op, a, b, node):
        la, lb = self.lift(a), self.lift(b)
        r = self.fresh_val("setop", kind="set")
        r.fresh = TRUE
        x = fresh_name("x")
        ina = f"(seq_has_pyeq (sitems {asV(la)}) {x} 0)"
        inb = f"(seq_has_pyeq (sitems {asV(lb)}) {x} 0)"
        rhs = {ast.BitOr: Or(ina, inb), ast.BitAnd: And(ina, inb), ast.Sub: And(ina, Not(inb))}[type(op)]
        st.assume(f"(k_set {r.t})")
        st.assume(f"(forall (({x} V)) (! (= (seq_has_pyeq (sitems {r.t}) {x} 0) {rhs}) :pattern ((seq_has_pyeq (sitems {r.t}) {x} 0))))")
        # non-emptiness witness facts (what truthiness of the result needs)
        if isinstance(op, ast.BitAnd):
            consts, other = None, None
            for u, w in ((a, lb), (b, la)):
                if isinstance(u, PyC) and isinstance(u.obj, (set, frozenset)):
                    consts, other = sorted(u.obj, key=repr), w
            if consts is not None:
                src = self.set_src.get(other.t, other)
                mem = []
                for cst in consts:
                    ct = const_term(cst, self.ctab)
                    if src.kind == "dict" and isinstance(cst, str):
                        mem.append(f"(dhas {asV(src)} {smt.sstr(cst)})")
                    else:
                        mem.append(f"(py_contains {asV(src)} {ct})")
                st.assume(Eq(f"(> (seq.len (sitems {r.t})) 0)", Or(*mem)))
                self.trusted_used.add("set intersection with a constant set is non-empty iff one of the constants is a member of the other operand (library axiom)")
        if isinstance(op, ast.Sub):
            # provenance: set(A) - set(B) is non-empty iff some element of A is not `in` B
            sa = self.set_src.get(la.t, la)
            sb = self.set_src.get(lb.t, lb)
            st.assume(Eq(f"(> (seq.len (sitems {r.t})) 0)", f"(some_missing (seqof {asV(sa)}) {asV(sb)} 0)"))
        self.trusted_used.add("set algebra: membership of |,&,- ; (a - b) non-empty iff some element of a is not in b (library axiom)")
        return [(st, r)]

    # ------------------------------------------------------------ attribute / subscript
    def e_Attribute(self, st, n):
        out = []
        for s, base in self.ev(st, n.value):
            if is_exc(base):
                out.append((s, base))
            else:
                out.extend(self.getattr(s, base, n.attr, n))
        return out

    def e_Subscript(self, st, n):
        if isinstance(n.slice, ast.Slice):
            return self.slice(st, n)
        out = []
        for s, vals in self.ev_seq(st, [n.value, n.slice]):
            if is_exc(vals):
                out.append((s, vals))
            else:
                out.extend(self.getitem(s, vals[0], vals[1], n))
        return out

    def slice(self, st, n):
        out = []
        nodes = [n.value] + [x for x in (n.slice.lower, n.slice.upper) if x is not None]
        if n.slice.step is not None:
            raise OutOfSubset("slice step", n)
        for s, vals in self.ev_seq(st, nodes):
            if is_exc(vals):
                out.append((s, vals))
                continue
            base = vals[0]
            it = iter(vals[1:])
            lo = next(it) if n.slice.lower is not None else None
            hi = next(it) if n.slice.upper is not None else None
            if isinstance(base, PyList) and all(x is None or (isinstance(x, PyC) and isinstance(x.obj, int)) for x in (lo, hi)):
                out.append((s, PyList(base.items[slice(lo.obj if lo else None, hi.obj if hi else None)], base.kind)))
                continue
            lb = self.lift(base)
            if lb.kind not in ("list", "tuple"):
                raise OutOfSubset("slice of non-list", n)
            sq = f"(seqof {asV(lb)})"
            # only non-negative constant bounds are modelled
            def bound(x, default):
                if x is None:
                    return default
                if isinstance(x, PyC) and isinstance(x.obj, int) and x.obj >= 0:
                    return str(x.obj)
                raise OutOfSubset("slice bound", n)
            lo_t = bound(lo, "0")
            hi_t = bound(hi, f"(seq.len {sq})")
            ctor = "v_list" if lb.kind == "list" else "v_tuple"
            # a new list, but its members are the members of the sliced container: they stay rooted where that one is (frame)
            out.append((s, Val(f"({ctor} (seq.extract {sq} {lo_t} (- {hi_t} {lo_t})))", kind=lb.kind, fresh=TRUE, origin=getattr(lb, "origin", None))))
        return out

    def getitem(self, st, base, idx, node):
        if isinstance(base, SDict) and base.term is None and isinstance(idx, PyC) and isinstance(idx.obj, str):
            if idx.obj not in base.entries:
                return self.raising(st, None, [(KeyError, TRUE)], node)[:-1]
            cnd, val = base.entries[idx.obj]
            return self.raising(st, val, [(KeyError, Not(cnd))], node)
        if isinstance(base, BoolSwitch):
            if isinstance(idx, PyC) and isinstance(idx.obj, bool):
                return [(st, base.table[idx.obj])]
            li = self.lift(idx)
            if not (li.sort == "B" or li.kind == "bool"):
                self.obl("kind", node, st, f"(k_bool {asV(li)})", detail="index of a {True:..,False:..} table is a bool")
                st.assume(f"(k_bool {asV(li)})")
                li = Val(asV(li), kind="bool")
            c = asB(li)
            a, b = self.lift(base.table[True]), self.lift(base.table[False])
            return [(st, Val(Ite(c, asV(a), asV(b)), kind=a.kind if a.kind == b.kind else None, fresh=Ite(c, a.fresh, b.fresh)))]
        if isinstance(base, PyList) and isinstance(idx, PyC) and isinstance(idx.obj, int):
            try:
                return [(st, base.items[idx.obj])]
            except IndexError:
                return self.raising(st, None, [(IndexError, TRUE)], node)[:-1]
        if isinstance(base, PyC) and getattr(base.obj, "__module__", "") == "typing" and isinstance(idx, (PyC, PyList)):
            return [(st, PyC(None))]      # a typing expression (Optional[T], ...): only ever passed to typing.cast
        if isinstance(base, PyC) and isinstance(base.obj, (dict, tuple, list)) and isinstance(idx, PyC):
            try:
                return [(st, PyC(base.obj[idx.obj]))]
            except (KeyError, IndexError) as e:
                return self.raising(st, None, [(type(e), TRUE)], node)[:-1]
        if isinstance(base, PyC) and isinstance(base.obj, dict) and all(isinstance(k, bool) for k in base.obj) and len(base.obj) == 2:
            # {True: x, False: y}[b]
            li = self.lift(idx)
            c = asB(li) if li.kind == "bool" or li.sort == "B" else None
            if c is None:
                raise OutOfSubset("bool-keyed dict with non-bool index", node)
            return [(st, Val(Ite(c, asV(self.lift(PyC(base.obj[True]))), asV(self.lift(PyC(base.obj[False]))))))]
        cls = getattr(base, "cls", None)
        if cls is not None and not isinstance(base, PyC) and cls.__module__.startswith("statham") \
                and any("__getitem__" in vars(c) for c in cls.__mro__ if c.__module__.startswith("statham")):
            fn = inspect.getattr_static(cls, "__getitem__")
            return self.call_function(st, fn, [base, idx], {}, node, selfcls=cls)
        lb, li = self.lift(base), self.lift(idx)
        tb = asV(lb)
        if isinstance(idx, PyC) and isinstance(idx.obj, str) and tb in self.dict_known and idx.obj in self.dict_known[tb]:
            return [(st, self.dict_known[tb][idx.obj])]
        hint = None
        try:
            src = ast.unparse(node)
        except Exception:
            src = None
        if src and src in self.contract.kinds:
            hint = self.kind_hint(self.contract.kinds[src])
        if lb.kind == "dict" and (li.sort == "S" or li.kind == "str"):
            val = Val(f"(dval {tb} {asS(li)})", kind=hint[0] if hint else None, cls=hint[1] if hint else None,
                      origin=(f"{lb.origin}[{asS(li)}]" if lb.origin else None))
            res = self.raising(st, val, [(KeyError, Not(f"(dhas {tb} {asS(li)})"))], node)
            if hint:
                self.obl("kind", node, res[-1][0], self.kind_pred(hint, val.t), detail=f"{src} is {hint[0]}")
            return res
        if lb.kind in ("list", "tuple") and (li.sort == "I" or li.kind == "int"):
            i = asI(li)
            ln = f"(seq.len (seqof {tb}))"
            ni = f"(norm_index {ln} {i})"
            val = Val(f"(seq.nth (seqof {tb}) {ni})")
            return self.raising(st, val, [(IndexError, Not(f"(and (<= 0 {ni}) (< {ni} {ln}))"))], node)
        code = f"(getitem_exc {tb} {asV(li)})"
        val = Val(f"(py_getitem {tb} {asV(li)})")
        return self.raising(st, val, [(KeyError, Eq(code, "1")), (IndexError, Eq(code, "2")),
                                      (TypeError, Eq(code, "3"))], node)
