"""Symbolic values of the executor and the class registry."""
import itertools
import types

from . import smt

_counter = itertools.count(1)


def fresh_name(prefix):
    return f"pv_{prefix}_{next(_counter)}"


class Val:
    """An SMT-level value. sort: 'V' (universal), 'B' (Bool), 'I' (Int), 'S' (String)."""
    __slots__ = ("t", "sort", "fresh", "kind", "cls", "origin")

    def __init__(self, t, sort="V", fresh="false", kind=None, cls=None, origin=None):
        self.origin = origin
        self.t = t
        self.sort = sort
        self.fresh = fresh
        self.kind = kind
        self.cls = cls
        if sort == "B":
            self.kind = "bool"
        elif sort == "I":
            self.kind = "int"
        elif sort == "S":
            self.kind = "str"

    def __repr__(self):
        return f"Val<{self.sort}:{self.kind}:{self.t[:80]}>"


class PyC:
    """A live Python constant (class, function, module, sentinel, literal)."""
    __slots__ = ("obj",)

    def __init__(self, obj):
        self.obj = obj

    def __repr__(self):
        return f"PyC<{self.obj!r:.60}>"


class PyList:
    """A sequence whose length is known to the executor (tuple display, *args, unrolled results)."""
    __slots__ = ("items", "kind", "fresh")

    def __init__(self, items, kind="list", fresh=True):
        self.items = list(items)
        self.kind = kind
        self.fresh = fresh


class CondList:
    """A list built by conditional appends on merged paths: entries (presence condition term, value), in order.
    Denotes the concatenation of `[value] if condition else []`."""
    __slots__ = ("entries", "term")

    def __init__(self, entries):
        self.entries = list(entries)
        self.term = None


class SDict:
    """A dict whose keys are known strings: key -> (presence condition term, value).  Insertion order = dict order."""
    __slots__ = ("entries", "term")

    def __init__(self, entries=None):
        self.entries = dict(entries or {})
        self.term = None

    def copy(self):
        return SDict(self.entries)


class SymObj:
    """An object allocated during this activation; attributes are updated strongly."""
    __slots__ = ("cls", "attrs", "oid", "term", "args")

    def __init__(self, cls, attrs=None, args=None):
        self.cls = cls
        self.attrs = dict(attrs or {})
        self.oid = next(_counter)
        self.term = None
        self.args = args


class Closure:
    __slots__ = ("node", "env", "glob", "selfcls", "name", "defcls")

    def __init__(self, node, env, glob, selfcls=None, name=None, defcls=None):
        self.defcls = defcls
        self.node = node
        self.env = env
        self.glob = glob
        self.selfcls = selfcls
        self.name = name


class BM:
    """Bound method / bound builtin method: receiver + name (+ resolved function)."""
    __slots__ = ("recv", "name", "func")

    def __init__(self, recv, name, func=None):
        self.recv = recv
        self.name = name
        self.func = func


class Exc:
    __slots__ = ("etype", "val", "node")

    def __init__(self, etype, val=None, node=None):
        self.etype = etype
        self.val = val
        self.node = node

    def __repr__(self):
        return f"Exc<{self.etype.__name__}>"


class OutOfSubset(Exception):
    def __init__(self, msg, node=None):
        super().__init__(msg)
        self.node = node


# ------------------------------------------------------------------ class registry

BUILTIN_IDS = {type(None): 0, bool: 1, int: 2, float: 3, str: 4, list: 5, tuple: 6, dict: 7,
               set: 8, object: 10, type: 11}


class ClassTable:
    """Ids of live classes; emitted as the definition of `subclass`, `meta_of`, `obj_truthy` facts."""

    def __init__(self):
        self.ids = dict(BUILTIN_IDS)
        self.by_id = {v: k for k, v in self.ids.items()}
        self.next = 100
        self.sentinels = {}
        self.named_objs = {}

    def register_module_classes(self, modules):
        import inspect
        seen = []
        for m in modules:
            for _, c in sorted(vars(m).items()):
                if inspect.isclass(c) and getattr(c, "__module__", "").startswith("statham"):
                    seen.append(c)
        for c in sorted(set(seen), key=lambda c: (c.__module__, c.__qualname__)):
            self.cid(c)

    def cid(self, c):
        from statham.schema.constants import NotPassed
        if c is NotPassed:
            return 9
        if c not in self.ids:
            self.ids[c] = self.next
            self.by_id[self.next] = c
            self.next += 1
        return self.ids[c]

    def sentinel(self, obj):
        k = id(obj)
        if k not in self.sentinels:
            self.sentinels[k] = (len(self.sentinels) + 1, obj)
        return self.sentinels[k][0]

    def sentinel_obj(self, n):
        for k, (i, o) in self.sentinels.items():
            if i == n:
                return o
        return None

    def smt(self):
        from statham.schema.constants import NotPassed
        classes = list(self.ids.items()) + [(NotPassed, 9)]
        pairs = []
        for a, ia in classes:
            for b, ib in classes:
                if a is not b and isinstance(a, type) and isinstance(b, type):
                    try:
                        if issubclass(a, b):
                            pairs.append(f"(and (= a {ia}) (= b {ib}))")
                    except TypeError:
                        pass
        body = "(or false " + " ".join(pairs) + ")"
        lines = [f"(define-fun subclass ((a Int) (b Int)) Bool {body})"]
        metas = []
        for c, i in classes:
            if isinstance(c, type) and type(c) is not type:
                metas.append((i, self.ids.get(type(c), 11)))
        expr = "T_TYPE"
        for i, m in metas:
            expr = f"(ite (= c {i}) {m} {expr})"
        lines.append(f"(define-fun meta_of ((c Int)) Int {expr})")
        # truthiness of objects: classes defining a constant-False __bool__ (Nothing, NotPassed);
        # dict subclasses by length; everything else is truthy
        falsy = []
        for c, i in classes:
            if isinstance(c, type) and "__bool__" in vars(c) and c.__module__.startswith("statham"):
                falsy.append(i)
        cond = "(or false " + " ".join(f"(= (class_of (oid x)) {i})" for i in falsy) + ")"
        dictlike = [i for c, i in classes if isinstance(c, type) and issubclass(c, dict) and c is not dict]
        dl = "(or false " + " ".join(f"(= (class_of (oid x)) {i})" for i in dictlike) + ")"
        lines.append(f"(define-fun obj_truthy ((x V)) Bool (ite {cond} false (ite {dl} (> (obj_dictlen x) 0) true)))")
        # classes of the (closed) table whose instances are not subscriptable
        nosub = [i for c, i in classes if isinstance(c, type) and i >= 100 and not issubclass(c, (dict, list, tuple, str))
                 and not any("__getitem__" in vars(k) for k in c.__mro__[:-1])]
        lines.append("(define-fun not_subscriptable ((c Int)) Bool (or false " + " ".join(f"(= c {i})" for i in nosub) + "))")
        return "\n".join(lines) + "\n"
