"""Executor core: state, obligations, lifting, attributes."""
import ast
import inspect

from . import smt
from .terms import (mseq, And, Or, Not, Implies, Ite, Eq, asV, asB, asI, asS, mkB, mkI, mkS, TRUE, FALSE,
                    const_term, seq_of_terms, KIND_OF_PY)
from .values import (CondList, Val, PyC, PyList, SymObj, SDict, Closure, BM, Exc, OutOfSubset, fresh_name, ClassTable)


def split_and(t):
    """Top-level conjuncts of an (and ...) term (keeps relevance slicing effective)."""
    if not t.startswith("(and "):
        return [t]
    out, depth, cur = [], 0, []
    body = t[5:-1]
    i = 0
    in_str = False
    while i < len(body):
        ch = body[i]
        if ch == '"':
            in_str = not in_str
        if not in_str:
            if ch == "(":
                depth += 1
            elif ch == ")":
                depth -= 1
            elif ch == " " and depth == 0:
                if cur:
                    out.append("".join(cur))
                    cur = []
                i += 1
                continue
        cur.append(ch)
        i += 1
    if cur:
        out.append("".join(cur))
    res = []
    for p in out:
        res.extend(split_and(p))
    return [p for p in res if p != TRUE]


class St:
    __slots__ = ("env", "pc", "ghost", "facts")

    def __init__(self, env=None, pc=(), ghost=None, facts=frozenset()):
        self.env = env if env is not None else {}
        self.pc = tuple(pc)
        self.ghost = dict(ghost or {})
        self.facts = facts      # pc entries that are facts about callee results (not branch conditions)

    def fork(self):
        return St(dict(self.env), self.pc, self.ghost, self.facts)

    def assume(self, t, fact=False):
        if t == TRUE:
            return self
        parts = split_and(t)
        self.pc = self.pc + tuple(parts)
        if fact:
            self.facts = self.facts | set(parts)
        return self


class Obligation:
    def __init__(self, name, kind, line, pc, goal, decls, detail="", expect="unsat"):
        self.name = name
        self.kind = kind
        self.line = line
        self.pc = pc
        self.goal = goal
        self.decls = decls
        self.detail = detail
        self.expect = expect      # 'unsat' = proof obligation (negated goal); 'sat' = cover
        self.result = None
        self.oos = False
        self.inputs = {}          # name -> term, for model extraction


def depth_ok(self):
    return getattr(self, "_named_depth", 0) < 2


class CoreMixin:
    def init_core(self, ctab):
        self.ctab = ctab
        self.decls = []           # declaration lines, in order
        self.declared = {"obj_dict"}      # declared in the prelude
        self.obls = []
        self.globals_assumed = []  # facts about named constants (asserted in every VC)
        self.catch_stack = []
        self.used_spec = set()
        self.trusted_used = set()
        self.call_depth = 0

    # ---- declarations
    def declare(self, name, sort="V"):
        if name not in self.declared:
            self.declared.add(name)
            self.decls.append(f"(declare-const {name} {sort})")
        return name

    def declare_fun(self, name, args, res):
        if name not in self.declared:
            self.declared.add(name)
            self.decls.append(f"(declare-fun {name} ({' '.join(args)}) {res})")
        return name

    def fresh_val(self, prefix, kind=None, cls=None, sort="V"):
        n = self.declare(fresh_name(prefix), {"V": "V", "B": "Bool", "I": "Int", "S": "String"}[sort])
        return Val(n, sort, kind=kind, cls=cls)

    _aliases = None

    def attr_alias(self, name):
        """Transparent property getters (`return self._x`) are aliases of the attribute they return."""
        if CoreMixin._aliases is None:
            import inspect as _i
            import textwrap
            table = {}
            bad = set()
            for cls in set(self.spec_names.values()):
                for k, d in vars(cls).items():
                    if isinstance(d, property) and d.fget is not None:
                        try:
                            src = textwrap.dedent(_i.getsource(d.fget))
                            fn = ast.parse(src).body[0]
                            body = [s for s in fn.body if not (isinstance(s, ast.Expr) and isinstance(s.value, ast.Constant))]
                            tgt = None
                            if len(body) == 1 and isinstance(body[0], ast.Return) and isinstance(body[0].value, ast.Attribute) \
                                    and isinstance(body[0].value.value, ast.Name) and body[0].value.value.id == fn.args.args[0].arg:
                                tgt = body[0].value.attr
                        except Exception:
                            tgt = None
                        if tgt is None or table.get(k, tgt) != tgt:
                            bad.add(k)
                        else:
                            table[k] = tgt
            CoreMixin._aliases = {k: v for k, v in table.items() if k not in bad}
        return CoreMixin._aliases.get(name, name)

    def attr_fun(self, name):
        name = self.attr_alias(name)
        return self.declare_fun("attr_" + name.replace("__", "dd_"), ["V"], "V")

    def ext_instance(self, a, b):
        """Skolemised sequence extensionality for two container values: if they are containers of the same
        kind and length and differ, they differ at the fresh index k (a valid fact for a fresh k)."""
        kname = self.declare(fresh_name("ext"), "Int")
        sa, sb = f"(seqof {a})", f"(seqof {b})"
        samekind = f"(or (and (k_list {a}) (k_list {b})) (and (k_tuple {a}) (k_tuple {b})) (and (k_dict {a}) (k_dict {b})))"
        fact = (f"(=> (and {samekind} (= (seq.len {sa}) (seq.len {sb})) (not (= {a} {b}))) "
                f"(and (<= 0 {kname}) (< {kname} (seq.len {sa})) (not (= (seq.nth {sa} {kname}) (seq.nth {sb} {kname})))))")
        self.globals_assumed.append(fact)

    def use_spec_fun(self, name):
        self.used_spec.add(name)

    def spec_constant(self, name):
        """Names usable in contracts: live classes by simple name (ValidationError, Element, dict...)."""
        import builtins
        obj = self.spec_names.get(name)
        if name == "NoneType":
            obj = type(None)
        if obj is None and hasattr(builtins, name):
            obj = getattr(builtins, name)
        if obj is None:
            return None
        return self.lift(PyC(obj))

    # ---- obligations
    def obl(self, kind, node, st, goal, detail="", expect="unsat"):
        if expect == "unsat" and goal == TRUE:
            self.trivial += 1
            return
        line = getattr(node, "lineno", 0) if node is not None else 0
        n = sum(1 for o in self.obls if o.kind == kind) + 1
        name = f"{self.cname}/{kind}#{n}@L{line}"
        o = Obligation(name, kind, line, st.pc, goal, None, detail, expect)
        o.inputs = dict(self.input_terms)
        self.obls.append(o)
        return o

    def named_concat(self, st, parts, hint="cat"):
        """A fresh list value equal to the concatenation of `parts` -- each ("seq", <Seq V term>) or ("unit", <V term>) -- with
        its identity-membership facts (lemma IS-MEM: ismem distributes over ++, ismem of a unit is equality)."""
        terms = [p if k == "seq" else f"(seq.unit {p})" for k, p in parts]
        t = "(as seq.empty (Seq V))" if not terms else terms[0] if len(terms) == 1 else "(seq.++ " + " ".join(terms) + ")"
        r = self.fresh_val(hint, kind="list")
        r.fresh = TRUE
        st.assume(Eq(r.t, f"(v_list {t})"), fact=True)
        x = fresh_name("x")
        alts = [f"(ismem {mseq(p)} {x})" if k == "seq" else f"(= {x} {p})" for k, p in parts]
        st.assume(f"(forall (({x} V)) (! (= (ismem (lseq {r.t}) {x}) (or false {' '.join(alts)})) :pattern ((ismem (lseq {r.t}) {x}))))", fact=True)
        return r

    # ---- attributes of objects allocated in this activation live in the state (path-local)
    def oattrs(self, st, so):
        if st is not None:
            return st.ghost.get(("O", so.oid), so.attrs)
        return so.attrs

    def oset(self, st, so, name, v):
        cur = self.oattrs(st, so)
        st.ghost = {**st.ghost, ("O", so.oid): {**cur, name: v}}

    # ---- lifting python-side values into SMT values
    def lift(self, v):
        if isinstance(v, Val):
            return v
        if isinstance(v, PyC):
            o = v.obj
            try:
                t = const_term(o, self.ctab)
                kind = KIND_OF_PY.get(type(o)) or ("cls" if isinstance(o, type) else None)
                return Val(t, kind=kind)
            except OutOfSubset:
                return self.named_object(o)
        if isinstance(v, PyList):
            ts = [asV(self.lift(x)) for x in v.items]
            ctor = {"list": "v_list", "tuple": "v_tuple", "set": "v_set"}[v.kind]
            return Val(f"({ctor} {seq_of_terms(ts)})", kind=v.kind, fresh=TRUE if v.fresh else FALSE)
        if isinstance(v, SymObj):
            return self.escape(v)
        if isinstance(v, SDict):
            return self.lift_sdict(v)
        if isinstance(v, CondList):
            return self.lift_condlist(v)
        if isinstance(v, Exc):
            return self.lift(v.val) if v.val is not None else Val("v_none")
        raise OutOfSubset(f"cannot lift {type(v).__name__} into an SMT value")

    def lift_condlist(self, cl):
        """A conditional-append list becomes a named list constant: its defining equation plus the identity-membership facts
        that follow from it (IS-MEM: concat, unit, empty): x is a member iff it is one of the entries whose condition holds."""
        if cl.term is None:
            r = self.declare(fresh_name("clist"))
            cl.term = r
            vals = [asV(self.lift(x)) for _, x in cl.entries]
            segs = [f"(seq.unit {t})" if c == TRUE else f"(ite {c} (seq.unit {t}) (as seq.empty (Seq V)))" for (c, _), t in zip(cl.entries, vals)]
            body = "(as seq.empty (Seq V))" if not segs else segs[0] if len(segs) == 1 else "(seq.++ " + " ".join(segs) + ")"
            x = fresh_name("x")
            alts = [And(c, Eq(x, t)) for (c, _), t in zip(cl.entries, vals)]
            facts = [Eq(r, f"(v_list {body})"),
                     f"(forall (({x} V)) (! (= (ismem (lseq {r}) {x}) {Or(*alts)}) :pattern ((ismem (lseq {r}) {x}))))"]
            for (c, _), t in zip(cl.entries, vals):
                facts.append(Implies(c, f"(ismem (lseq {r}) {t})"))
            self.escape_facts.extend(facts)
        return Val(cl.term, kind="list", fresh=TRUE)

    def lift_sdict(self, d):
        """A dict with statically known keys becomes a fresh dict constant defined by per-key facts."""
        if d.term is None:
            if all(cnd == TRUE for cnd, _ in d.entries.values()):
                items = [f"(v_pair {smt.sstr(k)} {asV(self.lift(val))})" for k, (cnd, val) in d.entries.items()]
                d.term = f"(v_dict {seq_of_terms(items)})"
                return Val(d.term, kind="dict", fresh=TRUE)
            r = self.declare(fresh_name("sdict"))
            d.term = r
            facts = [f"(dict_wf {r})"]
            count = []
            per_key = {}
            for k, (cnd, val) in d.entries.items():
                f1, f2 = Eq(f"(dhas {r} {smt.sstr(k)})", cnd), Implies(cnd, Eq(f"(dval {r} {smt.sstr(k)})", asV(self.lift(val))))
                facts.extend([f1, f2])
                per_key[smt.sstr(k)] = [f1, f2]
                count.append(Ite(cnd, "1", "0"))
            q = fresh_name("sk")
            others = And(*[Not(Eq(q, smt.sstr(k))) for k in d.entries])
            facts.append(f"(forall (({q} String)) (! (=> {others} (not (dhas {r} {q}))) :pattern ((dhas {r} {q}))))")
            facts.append(Eq(f"(seq.len (ditems {r}))", "(+ 0 " + " ".join(count) + ")" if count else "0"))
            self.escape_facts.extend(facts)
            # engine.vc_text keeps, per obligation, only the entries whose key the rest of the VC mentions
            self.sdict_facts[r] = {"keys": per_key, "others": facts[-2], "len": facts[-1]}
        return Val(d.term, kind="dict", fresh=TRUE)

    def named_object(self, o):
        """A pre-existing live object used as a constant (e.g. UNBOUND_PROPERTY, a function)."""
        if isinstance(o, (dict, list, set, frozenset, tuple)):
            raise OutOfSubset(f"container constant with non-encodable members ({type(o).__name__})")
        k = id(o)
        if k not in self.ctab.named_objs:
            self.ctab.named_objs[k] = (len(self.ctab.named_objs) + 1, o)
        n = self.ctab.named_objs[k][0]
        oid = -n   # negative ids: named constants; symbolic pre-existing objects are unconstrained
        term = f"(v_obj (- {n}))"
        fact = f"(= (class_of (- {n})) {self.ctab.cid(type(o))})"
        if fact not in self.globals_assumed:
            self.globals_assumed.append(fact)
            # attribute values of an immutable-by-convention module singleton (UNBOUND_PROPERTY): what it holds at import
            if type(o).__module__.startswith("statham") and type(o).__name__ in ("_Property",) and depth_ok(self):
                self._named_depth = getattr(self, "_named_depth", 0) + 1
                try:
                    for a, val in vars(o).items():
                        try:
                            vt = const_term(val, self.ctab)
                        except OutOfSubset:
                            vt = asV(self.named_object(val)) if type(val).__module__.startswith("statham") else None
                        if vt is not None:
                            self.globals_assumed.append(Eq(f"({self.attr_fun(a)} {term})", vt))
                    self.trusted_used.add(f"module singleton {type(o).__name__} object keeps the attribute values it has at import time")
                finally:
                    self._named_depth -= 1
        return Val(term, kind="obj", cls=type(o))

    def escape(self, so):
        """A fresh object becomes an SMT constant with facts about its class and attributes."""
        if so.term is None:
            n = self.declare(fresh_name("new" + so.cls.__name__), "Int")
            so.term = f"(v_obj {n})"
            self.escape_facts.append(f"(= (class_of {n}) {self.ctab.cid(so.cls)})")
            self.escape_facts.append(f"(>= {n} 1000000)")
            for other in self.escaped:
                self.escape_facts.append(f"(not (= {n} {other}))")
            self.escaped.append(n)
            self.escaped_objs[so.term] = so
        # attribute facts are (re)stated at escape time (strong updates before escape only)
        for a, val in self.oattrs(getattr(self, "spec_state", None) or getattr(self, "lift_state", None), so).items():
            try:
                t = asV(self.lift(val))
            except OutOfSubset:
                continue
            if a == "__dictview__":
                f = Eq(f"({self.declare_fun('obj_dict', ['V'], 'V')} {so.term})", t)
            else:
                f = Eq(f"({self.attr_fun(a)} {so.term})", t)
            if f not in self.escape_facts:
                self.escape_facts.append(f)
        return Val(so.term, kind="obj", cls=so.cls, fresh=TRUE)

    # ---- attribute access in contract expressions (total, no exceptions)
    def spec_getattr(self, base, name):
        if isinstance(base, SymObj):
            attrs = self.oattrs(getattr(self, "spec_state", None), base)
            if name in attrs:
                return attrs[name]
            cv = self.class_attr(base.cls, name)
            if cv is not None:
                return cv
            return Val("v_absent")
        if isinstance(base, PyC):
            try:
                return PyC(getattr(base.obj, name))
            except AttributeError:
                return Val("v_absent")
        if isinstance(base, Exc):
            return self.spec_getattr(base.val, name)
        base = self.lift(base)
        if name == "__name__" and base.kind == "cls":
            return Val(f"({self.declare_fun('cls_name', ['Int'], 'String')} (cid {asV(base)}))", "S")
        if base.cls is not None:
            cv = self.class_attr(base.cls, name)
            if cv is not None and name not in self.instance_attrs(base.cls):
                return cv
        st = getattr(self, "spec_state", None)
        if base.t in self.escaped_objs and name in self.oattrs(st, self.escaped_objs[base.t]):
            return self.oattrs(st, self.escaped_objs[base.t])[name]
        fn = self.cur_attr(st, name) if st is not None else self.attr_fun(name)
        hint = self.attr_kinds.get(name)
        return Val(f"({fn} {asV(base)})", kind=hint[0] if hint else None, cls=hint[1] if hint else None)

    def class_attr(self, cls, name):
        """Plain class-level constant (not a function/descriptor) found on the MRO, else None."""
        for k in cls.__mro__:
            if name in vars(k):
                v = vars(k)[name]
                if inspect.isfunction(v) or isinstance(v, (property, classmethod, staticmethod)) \
                        or inspect.ismethoddescriptor(v) or inspect.isdatadescriptor(v):
                    return None
                return PyC(v)
        return None

    _inst_cache = {}

    def instance_attrs(self, cls):
        """Names assigned as self.X in any __init__/__new__ on the MRO (syntactic)."""
        if cls in self._inst_cache:
            return self._inst_cache[cls]
        names = set()
        for k in cls.__mro__:
            if not getattr(k, "__module__", "").startswith("statham"):
                continue
            try:
                src = inspect.getsource(k)
            except (OSError, TypeError):
                continue
            import textwrap
            tree = ast.parse(textwrap.dedent(src))
            for n in ast.walk(tree):
                if isinstance(n, ast.Attribute) and isinstance(n.ctx, ast.Store) \
                        and isinstance(n.value, ast.Name) and n.value.id in ("self", "cls"):
                    names.add(n.attr)
        self._inst_cache[cls] = names
        return names
